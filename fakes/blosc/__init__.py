"""In-process stand-in for the `blosc` C library (not installable offline).

Only the codec is a stub: a frame is a 16-byte header (magic, uncompressed
length, payload length, codec id) followed by a stored or zlib payload.  The
length-prefixed framing and the reassembly state machine that property C14 is
about live in abacusnbody/data/asdf.py and are the repository's own code.
A frame that is truncated, padded or otherwise not byte-exact is rejected, so a
reassembly error cannot go unnoticed.
"""
import ctypes
import struct
import zlib

SHUFFLE = 1
NOSHUFFLE = 0
BITSHUFFLE = 2
_MAGIC = b'FBLS'
_HDR = struct.Struct('<4sIIB3x')
__version__ = '0.0-fake'

STATS = {'compress': 0, 'decompress': 0}


class FakeBloscError(Exception):
    pass


def set_nthreads(n):
    return 1


def set_blocksize(n):
    return None


def compress(data, typesize=8, clevel=9, shuffle=SHUFFLE, cname='blosclz', **kwargs):
    raw = bytes(memoryview(data).cast('B')) if not isinstance(data, bytes) else data
    STATS['compress'] += 1
    if len(raw) >= 48:
        payload = zlib.compress(raw, 1)
        codec = 1
        if len(payload) >= len(raw):
            payload, codec = raw, 0
    else:
        payload, codec = raw, 0
    return _HDR.pack(_MAGIC, len(raw), len(payload), codec) + payload


def _decode(frame):
    frame = bytes(frame)
    if len(frame) < _HDR.size:
        raise FakeBloscError('frame shorter than header: %d' % len(frame))
    magic, nbytes, cbytes, codec = _HDR.unpack_from(frame)
    if magic != _MAGIC:
        raise FakeBloscError('bad magic %r' % (magic,))
    if len(frame) != _HDR.size + cbytes:
        raise FakeBloscError(
            'frame length %d != header+payload %d' % (len(frame), _HDR.size + cbytes))
    payload = frame[_HDR.size:]
    raw = zlib.decompress(payload) if codec == 1 else payload
    if len(raw) != nbytes:
        raise FakeBloscError('decoded length mismatch')
    return raw


def decompress(frame, as_bytearray=False):
    raw = _decode(frame)
    return bytearray(raw) if as_bytearray else raw


def decompress_ptr(frame, address):
    raw = _decode(memoryview(frame).tobytes())
    STATS['decompress'] += 1
    if len(raw):
        ctypes.memmove(int(address), raw, len(raw))
    return len(raw)
