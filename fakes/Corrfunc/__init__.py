"""Import-only stub (Corrfunc is not installable offline; never called by checks)."""
