def _nope(*a, **k):
    raise RuntimeError('Corrfunc stub called: not available in the verification sandbox')
DD = DDrppi = DDsmu = wp = xi = _nope
