"""Import-only stub (never called by checks: reseed is not exercised)."""
class MTGenerator:
    def __init__(self, *a, **k):
        raise RuntimeError('parallel_numpy_rng stub called')
