"""Driver side of the NUMBA_BOUNDSCHECK child."""
import json
import os
import subprocess
import sys

from simcore import boot


def run_child(prop, cases, timeout=900):
    env = dict(os.environ, NUMBA_BOUNDSCHECK='1', PYTHONPATH=boot.VERIF, PYTHONHASHSEED='0', PYTHONWARNINGS='ignore')
    r = subprocess.run([sys.executable, '-m', 'e3_arena.child'], input=json.dumps({'prop': prop, 'cases': cases}),
                       capture_output=True, text=True, env=env, cwd=boot.VERIF, timeout=timeout)
    line = [l for l in r.stdout.splitlines() if l.startswith('RESULTS ')]
    if not line:
        if r.returncode < 0:
            return None, 'child died with signal %d' % -r.returncode
        return None, 'child failed: %s' % (r.stderr[-800:],)
    return json.loads(line[0][8:]), None
