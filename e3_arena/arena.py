"""E3 -- poisoned arena with canary guard zones for *compiled* kernels (seam S3).

``Arena.alloc`` carves arrays out of one large buffer; every allocation is
surrounded by guard zones of at least 64 elements, and the whole buffer is filled
from a seeded PRNG.  A case runs the real compiled kernel twice, with two
different fills.  Violations: a guard zone changed (out-of-bounds write); outputs
differ between the two fills (the result depends on memory outside the inputs:
out-of-bounds or uninitialised read).
"""
import numpy as np


class Arena:
    def __init__(self, nbytes, seed):
        self.buf = np.random.default_rng(seed).integers(0, 256, nbytes, dtype=np.uint8)
        # avoid accidental zeros/ones that would hide a stray read
        self.buf[self.buf == 0] = 0xA5
        self.pos = 256
        self.allocs = []

    def alloc(self, shape, dtype, guard=64, fill=None):
        dt = np.dtype(dtype)
        shape = (shape,) if np.isscalar(shape) else tuple(shape)
        n = int(np.prod(shape)) if len(shape) else 1
        g = guard * dt.itemsize
        start = (self.pos + g + 63) // 64 * 64
        end = start + n * dt.itemsize
        if end + g > len(self.buf):
            raise MemoryError('arena exhausted')
        a = np.frombuffer(self.buf.data, dtype=dt, count=n, offset=start).reshape(shape)
        if fill is not None:
            a[...] = fill
        lo, hi = (start - g, start), (end, end + g)
        self.allocs.append((lo, hi, self.buf[lo[0]:lo[1]].copy(), self.buf[hi[0]:hi[1]].copy(), shape, str(dt)))
        self.pos = end + g
        return a

    def put(self, arr, guard=64):
        arr = np.asarray(arr)
        a = self.alloc(arr.shape, arr.dtype, guard)
        a[...] = arr
        return a

    def damaged(self):
        bad = []
        for k, (lo, hi, slo, shi, shape, dt) in enumerate(self.allocs):
            if not np.array_equal(self.buf[lo[0]:lo[1]], slo):
                bad.append({'alloc': k, 'side': 'before', 'shape': list(shape), 'dtype': dt})
            if not np.array_equal(self.buf[hi[0]:hi[1]], shi):
                bad.append({'alloc': k, 'side': 'after', 'shape': list(shape), 'dtype': dt})
        return bad


def two_fills(fn, nbytes=1 << 20, seeds=(11, 29)):
    """Run ``fn(arena) -> tuple of outputs`` under two fills.  Returns
    (outputs_A, outputs_B, damaged_A, damaged_B, exception | None)."""
    res, dmg = [], []
    for s in seeds:
        ar = Arena(nbytes, s)
        try:
            out = fn(ar)
        except Exception as e:
            return None, None, None, None, e
        res.append(out)
        dmg.append(ar.damaged())
    return res[0], res[1], dmg[0], dmg[1], None


def same(a, b):
    """Bytewise equality of two output tuples (arrays / scalars / None)."""
    if type(a) is tuple or type(a) is list:
        return len(a) == len(b) and all(same(x, y) for x, y in zip(a, b))
    if a is None or b is None:
        return a is None and b is None
    x, y = np.asarray(a), np.asarray(b)
    return x.shape == y.shape and x.dtype == y.dtype and x.tobytes() == y.tobytes()
