"""Kernel table for C11: for every serial @njit kernel of the package a seeded
generator of precondition-satisfying inputs biased to the documented boundary
classes, and the call itself on arena (or plain, for the bounds-check child)
arrays.  Preconditions are taken from the docstrings / callers (DESIGN.md
Appendix A); inputs outside them are never generated."""
import numpy as np


def _alloc(arena, shape, dtype, fill=None):
    if arena is None:
        a = np.empty(shape, dtype=dtype)
        a[...] = 0 if fill is None else fill
        return a
    return arena.alloc(shape, dtype, fill=fill)


def _put(arena, arr):
    arr = np.ascontiguousarray(arr)
    if arena is None:
        return arr.copy()
    return arena.put(arr)


# ---------------------------------------------------------------- rvint ----
def gen_rvint(rng):
    return {'n': rng.choice([0, 1, 2, 7]), 'pos': rng.random() < 0.7, 'vel': rng.random() < 0.7,
            'dtype': rng.choice(['f4', 'f8']), 'seed': rng.randrange(1 << 20), 'extra_rows': rng.choice([0, 0, 3])}


def call_rvint(c, arena):
    from abacusnbody.data import bitpacked
    r = np.random.default_rng(c['seed'])
    data = _put(arena, r.integers(-2 ** 31, 2 ** 31 - 1, (c['n'], 3), dtype=np.int64).astype(np.int32))
    m = c['n'] + c['extra_rows']
    pos = _alloc(arena, (m, 3), c['dtype'], 7) if c['pos'] else None
    vel = _alloc(arena, (m, 3), c['dtype'], 7) if c['vel'] else None
    bitpacked._unpack_rvint(data, 500.0, pos, vel)
    return (None if pos is None else pos.copy(), None if vel is None else vel.copy())


def all_rvint():
    for n in (0, 1, 2, 7):
        for pos in (False, True):
            for vel in (False, True):
                for dtype in ('f4', 'f8'):
                    for extra in (0, 3):
                        yield {'n': n, 'pos': pos, 'vel': vel, 'dtype': dtype, 'seed': 11 * n + 1, 'extra_rows': extra}


def all_pids():
    import itertools
    for n in (0, 1, 2, 9):
        for k in range(len(PIDOUT) + 1):
            for outs in itertools.combinations(PIDOUT, k):
                yield {'n': n, 'outs': list(outs), 'seed': 7 * n + 3}


# ----------------------------------------------------------------- pids ----
PIDOUT = ['pid', 'lagr_pos', 'tagged', 'density', 'lagr_idx']


def gen_pids(rng):
    return {'n': rng.choice([0, 1, 2, 9]), 'outs': [k for k in PIDOUT if rng.random() < 0.6], 'seed': rng.randrange(1 << 20)}


def call_pids(c, arena):
    from abacusnbody.data import bitpacked
    r = np.random.default_rng(c['seed'])
    packed = _put(arena, r.integers(0, 2 ** 63 - 1, c['n'], dtype=np.int64).astype(np.uint64))
    n = c['n']
    spec = {'pid': ((n,), 'i8'), 'lagr_pos': ((n, 3), 'f4'), 'tagged': ((n,), 'u1'), 'density': ((n,), 'f4'),
            'lagr_idx': ((n, 3), 'i2')}
    outs = {k: _alloc(arena, spec[k][0], spec[k][1], 7) for k in c['outs']}
    bitpacked._unpack_pids(packed, 500.0, 64, **outs)
    return tuple(outs[k].copy() for k in sorted(outs))


# ---------------------------------------------------------------- pack9 ----
def gen_pack9(rng):
    style = rng.choice(['empty', 'headers-only', 'header-last', 'no-header-first', 'normal', 'normal'])
    recs = []
    if style == 'headers-only':
        recs = [['H', 15, 500, [1, 2, 3]] for _ in range(rng.randrange(1, 4))]
    elif style in ('normal', 'header-last'):
        recs = [['H', 15, 500, [1, 2, 3]]]
        for _ in range(rng.randrange(0, 6)):
            if rng.random() < 0.3:
                recs.append(['H', 15, 700, [rng.randrange(15) for _ in range(3)]])
            recs.append(['P', rng.randrange(1, 90000)])
        if style == 'header-last':
            recs.append(['H', 15, 500, [0, 0, 0]])
    elif style == 'no-header-first':
        recs = [['P0', rng.randrange(1, 90000)] for _ in range(rng.randrange(1, 4))]
    return {'recs': recs, 'style': style, 'pos': rng.random() < 0.7, 'vel': rng.random() < 0.7, 'dtype': rng.choice(['f4', 'f8'])}


def call_pack9(c, arena):
    from abacusnbody.data import pack9
    from props.c16 import build_pack9, _p9_bytes
    recs = c['recs']
    if c['style'] == 'no-header-first':
        data = np.array([_p9_bytes([(r[1] * k) % 3900 + 50 for k in (1, 3, 5, 7, 11, 13)]) for r in recs], dtype=np.uint8).reshape(-1, 9)
    else:
        data = build_pack9(recs, 500.0, 777.0)[0] if recs else np.zeros((0, 9), dtype=np.uint8)
    data = _put(arena, data)
    n = len(data)
    dt = np.float32 if c['dtype'] == 'f4' else np.float64
    pos = _alloc(arena, (n, 3), dt, 7) if c['pos'] else None
    vel = _alloc(arena, (n, 3), dt, 7) if c['vel'] else None
    w = pack9._unpack_pack9(data, 500.0, 777.0, pos, vel, dt)
    w = int(w)
    nanfix = lambda a: None if a is None else np.nan_to_num(a[:w].copy(), nan=-1.0)
    # rows beyond the decoded count are unspecified; the decoded ones must not depend on the fill
    return (w, nanfix(pos), nanfix(vel))


# --------------------------------------------------------------- zipper ----
def gen_zipper(rng):
    from e2_world import world as W
    w = W.gen_world(rng, max_slabs=1, max_halos=rng.choice([0, 1, 3, 6]), max_parts=3, want_clean=True)
    return {'world': w, 'cleaned': rng.random() < 0.6, 'AB': rng.choice('AB'), 'which': rng.choice(['rv', 'pid']),
            'outs': [k for k in (['pos', 'vel', 'rvint'] if rng.random() < 2 else []) if rng.random() < 0.7],
            'pidouts': [k for k in ['pid', 'lagr_pos', 'tagged', 'density', 'lagr_idx', 'packedpid'] if rng.random() < 0.6],
            'last_halo_ends_file': rng.random() < 0.5}


def call_zipper(c, arena):
    from simcore import boot
    boot.register_asdf_extension()
    from abacusnbody.data.compaso_halo_catalog import CompaSOHaloCatalog
    from e2_world import world as W
    slab = c['world']['slabs'][0]
    if c['last_halo_ends_file']:
        slab = dict(slab, tailA=[], tailB=[])
    lay = W.slab_layout(slab)[c['AB']]
    hs = slab['halos']
    cleaned = c['cleaned']
    read_off = np.array([i[0] for i in lay['idx']], dtype=np.uint64)
    read_len = np.array([(0 if (cleaned and h['clean']['N_total'] == 0) else i[1]) for i, h in zip(lay['idx'], hs)], dtype=np.uint32)
    cro = np.array([i[0] for i in lay['midx']], dtype=np.int64)
    crl = np.array([i[1] for i in lay['midx']], dtype=np.uint32)
    tot = read_len.astype(np.int64) + (crl.astype(np.int64) if cleaned else 0)
    woff = np.concatenate([[0], np.cumsum(tot)]).astype(np.uint64)
    nsub = int(woff[-1])
    rv, pid = W.particle_arrays(lay['recs'])
    crv, cpid = W.particle_arrays(lay['mrecs'])
    read_off, read_len, woff = _put(arena, read_off), _put(arena, read_len), _put(arena, woff)
    cro, crl = _put(arena, cro), _put(arena, crl)
    if c['which'] == 'rv':
        outs = {k: None for k in ('pos', 'vel', 'rvint')}
        for k in c['outs']:
            outs[k] = _alloc(arena, (nsub, 3), np.int32 if k == 'rvint' else np.float32, 7)
        kw = dict(slab_rvint=_put(arena, rv), slab_read_offsets=read_off, slab_read_lens=read_len,
                  slab_write_offsets=woff, boxsize=500.0)
        if cleaned:
            kw.update(clean_slab_rvint=_put(arena, crv), clean_slab_read_offsets=cro, clean_slab_read_lens=crl)
        CompaSOHaloCatalog._unpack_rv_subsamples(outs['pos'], outs['vel'], outs['rvint'], **kw)
        return tuple(None if outs[k] is None else outs[k].copy() for k in ('pos', 'vel', 'rvint'))
    spec = {'pid': ((nsub,), 'i8'), 'lagr_pos': ((nsub, 3), 'f4'), 'tagged': ((nsub,), 'u1'), 'density': ((nsub,), 'f4'),
            'lagr_idx': ((nsub, 3), 'i2'), 'packedpid': ((nsub,), 'u8')}
    outs = {k: None for k in spec}
    for k in c['pidouts']:
        outs[k] = _alloc(arena, spec[k][0], spec[k][1], 7)
    kw = dict(slab_packedpid=_put(arena, pid), slab_read_offsets=read_off, slab_read_lens=read_len,
              slab_write_offsets=woff, boxsize=500.0, ppd=64.0)
    if cleaned:
        kw.update(clean_slab_packedpid=_put(arena, cpid), clean_slab_read_offsets=cro, clean_slab_read_lens=crl)
    pidarr = outs.pop('pid')
    CompaSOHaloCatalog._unpack_pid_subsamples(pidarr, **kw, **outs)
    outs['pid'] = pidarr
    return tuple(None if outs[k] is None else outs[k].copy() for k in sorted(outs))


# ------------------------------------------------------------ cic / tsc ----
def gen_grid(rng, kind):
    n = rng.choice([1, 2, 3, 5]) if kind == 'tsc' else rng.choice([2, 3, 5])
    shape = [n, rng.choice([1, 2, 4]) if kind == 'tsc' else rng.choice([2, 4]), rng.choice([1, 1, 3])]
    if rng.random() < 0.4:
        shape = [rng.choice([2, 4, 7])] * 3
    N = rng.choice([0, 1, 3, 10])
    box = 1.0
    dtype = rng.choice(['f4', 'f8'])
    ft = np.float32 if dtype == 'f4' else np.float64
    top = float(np.nextafter(ft(box), ft(0)))
    pos = [[rng.choice([0.0, top, box, rng.random() * box, 0.5 * box]) for _ in range(3)] for _ in range(N)]
    return {'kind': kind, 'shape': shape, 'pos': pos, 'dtype': dtype, 'weights': rng.random() < 0.5,
            'offset': rng.choice([0.0, 0.5 * box / shape[0], box / shape[0]]) if kind == 'tsc' else rng.choice([0.0, 0.5 * box / shape[0]])}


def all_grid():
    """Every (kernel, grid shape, offset, dtype) of the families above with one particle for each combination of
    boundary coordinates per axis: complete over the boundary classes instead of sampled."""
    import itertools
    box = 1.0
    for kind in ('tsc', 'tsc_parallel1', 'cic'):
        if kind == 'cic':
            shapes = [[a, b, c] for a in (2, 3, 5) for b in (2, 4) for c in (1, 3)] + [[2] * 3, [4] * 3, [7] * 3]
        else:
            shapes = [[a, b, c] for a in (1, 2, 3, 5) for b in (1, 2, 4) for c in (1, 3)] + [[2] * 3, [4] * 3, [7] * 3]
        for shape in shapes:
            for dtype in ('f4', 'f8'):
                ft = np.float32 if dtype == 'f4' else np.float64
                top = float(np.nextafter(ft(box), ft(0)))
                half_lo = float(np.nextafter(ft(0.5 * box), ft(0)))
                vals = [0.0, top, box, 0.5 * box, half_lo, float(ft(1.0) / ft(3.0)), 1e-30]
                pos = [list(p) for p in itertools.product(vals, repeat=3)]
                offs = [0.0, 0.5 * box / shape[0]] + ([box / shape[0]] if kind != 'cic' else [])
                for off in offs:
                    for weights in (False, True):
                        yield {'kind': kind, 'shape': shape, 'pos': pos, 'dtype': dtype, 'weights': weights, 'offset': off}


def call_grid(c, arena):
    ft = np.float32 if c['dtype'] == 'f4' else np.float64
    pos = _put(arena, np.array(c['pos'], dtype=ft).reshape(-1, 3))
    grid = _alloc(arena, tuple(c['shape']), np.float32, 0)
    w = _put(arena, np.ones(len(pos), dtype=ft) * 2) if c['weights'] else None
    if c['kind'] == 'tsc':
        from abacusnbody.analysis import tsc
        tsc._tsc_scatter(pos, grid, 1.0, weights=w, offset=c['offset'])
    elif c['kind'] == 'tsc_parallel1':
        from abacusnbody.analysis import tsc
        tsc.tsc_parallel(pos, grid, 1.0, weights=w, nthread=1, wrap=True, offset=c['offset'])
    else:
        from abacusnbody.analysis import cic
        p = pos if c['offset'] == 0 else _put(arena, np.asarray(pos) + ft(c['offset']))
        cic.cic_serial(p, grid, 1.0, weights=w)
    return (grid.copy(),)


# -------------------------------------------------------- interpolation ----
INTERP_N = [2, 3, 10, 50, 128, 1000]
INTERP_X0 = [0.0, 0.1, 1e-3]
INTERP_DX = [0.1, 0.3, 1.0 / 3]
INTERP_WHERE = ['below', 'first', 'inside', 'last', 'above', 'ulp-below-last', 'ulp-above-first']


def gen_interp(rng):
    return {'n': rng.choice(INTERP_N), 'x0': rng.choice(INTERP_X0), 'dx': rng.choice(INTERP_DX),
            'grid': rng.choice(['arange', 'linspace']), 'where': rng.choice(INTERP_WHERE), 'frac': rng.random()}


def all_interp():
    """Every equidistant float32 grid of the families above, evaluated one rounding step inside each end:
    whether the measured spacing x[1]-x[0] under- or overshoots depends on the particular (n, x0, dx)."""
    for n in INTERP_N:
        for x0 in INTERP_X0:
            for dx in INTERP_DX:
                for grid in ('arange', 'linspace'):
                    for where in ('ulp-below-last', 'ulp-above-first'):
                        yield {'n': n, 'x0': x0, 'dx': dx, 'grid': grid, 'where': where, 'frac': 0.5}


def call_interp(c, arena):
    from abacusnbody.analysis import power_spectrum as ps
    if c.get('grid', 'arange') == 'linspace':
        x = np.linspace(c['x0'], c['x0'] + c['dx'] * 7, c['n']).astype(np.float32)
    else:
        x = (c['x0'] + c['dx'] * np.arange(c['n'])).astype(np.float32)
    y = np.arange(c['n'], dtype=np.float32) * 2 + 1
    xd = {'below': x[0] - 1, 'first': x[0], 'inside': x[0] + c['frac'] * (x[-1] - x[0]), 'last': x[-1], 'above': x[-1] + 1,
          'ulp-below-last': np.nextafter(x[-1], np.float32(-1)), 'ulp-above-first': np.nextafter(x[0], np.float32(1e9))}[c['where']]
    xa, ya = _put(arena, x), _put(arena, y)
    return (np.asarray(ps.linear_interp(np.float32(xd), xa, ya)),)


def gen_legendre(rng):
    return {'n': rng.choice([0, 1, 2, 4, 6, 10]), 'x': rng.choice([0.0, 1.0, rng.random()])}


def call_legendre(c, arena):
    from abacusnbody.analysis import power_spectrum as ps
    return (np.asarray(ps.P_n(np.float32(c['x']), c['n'])), np.asarray(ps.n_choose_k(2 * c['n'], c['n'])))


def gen_cumsum(rng):
    from props import c19
    c = c19.gen(rng, 'quick')
    c['delta'] = 0
    if c['n'] - 1 + int(c['initial']) + int(c['final']) < 0:
        c['final'] = True
    c['n'] = min(c['n'], 200)
    return c


def call_cumsum(c, arena):
    from props import c19
    return c19.kernel_call(c, arena)


KERNELS = {
    'util.cumsum': (gen_cumsum, call_cumsum),
    'bitpacked._unpack_rvint': (gen_rvint, call_rvint),
    'bitpacked._unpack_pids': (gen_pids, call_pids),
    'pack9._unpack_pack9': (gen_pack9, call_pack9),
    'compaso.subsample_zipper': (gen_zipper, call_zipper),
    'cic.cic_serial': (lambda r: gen_grid(r, 'cic'), call_grid),
    'tsc._tsc_scatter': (lambda r: gen_grid(r, 'tsc'), call_grid),
    'tsc.tsc_parallel[nthread=1]': (lambda r: dict(gen_grid(r, 'tsc'), kind='tsc_parallel1'), call_grid),
    'power_spectrum.linear_interp': (gen_interp, call_interp),
    'power_spectrum.P_n': (gen_legendre, call_legendre),
}

GRID_KERNEL = {'tsc': 'tsc._tsc_scatter', 'tsc_parallel1': 'tsc.tsc_parallel[nthread=1]', 'cic': 'cic.cic_serial'}
