"""Child process started with NUMBA_BOUNDSCHECK=1: executes compiled kernels
with numba's own bounds checking, so an out-of-range index raises IndexError
instead of touching neighbouring memory.

stdin : {"prop": "c19", "cases": [...]}      stdout: "RESULTS " + json list
"""
import json
import os
import sys


def main():
    assert os.environ.get('NUMBA_BOUNDSCHECK') == '1'
    sys.path.insert(0, os.path.dirname(os.path.dirname(os.path.abspath(__file__))))
    from simcore import boot
    boot.setup()
    import importlib
    req = json.load(sys.stdin)
    prop = importlib.import_module('props.' + req['prop'])
    out = []
    for case in req['cases']:
        try:
            prop.kernel_call(case, None)
            out.append(None)
        except IndexError as e:
            out.append({'type': 'IndexError', 'msg': str(e)[:200]})
        except Exception as e:
            out.append({'type': type(e).__name__, 'msg': str(e)[:200], 'other': True})
    print('RESULTS ' + json.dumps(out))
    sys.stdout.flush()
    os._exit(0)


if __name__ == '__main__':
    main()
