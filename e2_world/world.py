"""E2 -- simulated storage world for CompaSO halo catalogues.

A *world* is the ground truth: a header, superslabs with arbitrary distinct
indices, halos with the **stored** (raw) value of every HaloStat field under
the on-disk names, A/B particle lists, un-indexed L0 gap records between halo
ranges, and an optional cleaning layer (N_total, merged-particle ranges into
cleaned_rvpid files, main-progenitor columns).

Every particle carries a unique serial number that is encoded redundantly in
its RVint position, its RVint velocity and its packed PID, so that every
particle a loader returns is attributable to exactly one particle written.

The writer is a stub for the Abacus simulation code; the readers are the
repository's.  The reference decoders below are written from the documented
bit layout, not imported from the repository.
"""
import os

import numpy as np

INT16SCALE = 32000.0
AUXPID = 0x7FFF | (0x7FFF << 16) | (0x7FFF << 32)

COMS = ('_com', '_L2com')
RNAMES = ('r10', 'r25', 'r33', 'r50', 'r67', 'r75', 'r90', 'r95', 'r98', 'rvcirc_max')


# ------------------------------------------------------------ particles ----
def encode_particle(serial):
    """serial < 2**20 -> (rvint[3] int32, packedpid uint64)."""
    s = int(serial)
    # 20-bit signed position fields: keep inside [-500000, 500000)
    px = (s % 999983) - 499991
    py = ((s * 7 + 3) % 999983) - 499991
    pz = ((s * 13 + 5) % 999983) - 499991
    vx = s & 0xFFF
    vy = (s >> 12) & 0xFFF
    vz = (s * 5 + 1) & 0xFFF
    words = [((p << 12) | v) for p, v in ((px, vx), (py, vy), (pz, vz))]
    words = [w - (1 << 32) if w >= (1 << 31) else w for w in [w & 0xFFFFFFFF for w in words]]
    ix = s & 0x7FFF
    iy = (s >> 15) & 0x7FFF
    iz = (s * 3 + 1) & 0x7FFF
    tagged = s & 1
    dens = (s * 5) & 0x3FF
    junk = ((s * 2654435761) >> 3) & 0x1F       # bits 59-63: must be ignored by every decoder
    packed = ix | (iy << 16) | (iz << 32) | (tagged << 48) | (dens << 49) | (junk << 59)
    packed |= ((s >> 3) & 1) << 15 | ((s >> 4) & 1) << 31 | ((s >> 5) & 1) << 47   # non-id bits inside the id words
    return words, packed


def decode_rvint(words, box):
    """Reference decoder (documented layout).  words: (N,3) int32."""
    w = np.asarray(words, dtype=np.int64).reshape(-1, 3)
    pos = (w >> 12).astype(np.float64) * (box / 1e6)
    vel = ((w & 0xFFF) - 2048).astype(np.float64) * (6000.0 / 2048)
    return pos, vel


def decode_pid(packed, box, ppd):
    p = np.asarray(packed, dtype=np.uint64).astype(object)
    n = len(p)
    ix = np.array([int(v) & 0x7FFF for v in p], dtype=np.int64)
    iy = np.array([(int(v) >> 16) & 0x7FFF for v in p], dtype=np.int64)
    iz = np.array([(int(v) >> 32) & 0x7FFF for v in p], dtype=np.int64)
    lagr_idx = np.stack([ix, iy, iz], axis=1) if n else np.zeros((0, 3), dtype=np.int64)
    return {
        'pid': np.array([int(v) & AUXPID for v in p], dtype=np.int64),
        'lagr_idx': lagr_idx,
        'lagr_pos': lagr_idx.astype(np.float64) * (box / ppd) - box / 2,
        'tagged': np.array([(int(v) >> 48) & 1 for v in p], dtype=np.int64),
        'density': np.array([((int(v) >> 49) & 0x3FF) ** 2 for v in p], dtype=np.float64),
        'packedpid': np.array([int(v) for v in p], dtype=np.uint64),
    }


# ------------------------------------------------------------ generation ---
def _ratio_i16(rng, extremes=True):
    if extremes and rng.random() < 0.25:
        return rng.choice([0, 32000, -32000, 32767, -32767, 1, -1])
    return rng.randrange(-32000, 32001)


def gen_halo_raw(rng, hid):
    raw = {'id': hid, 'ntaggedA': rng.randrange(0, 50), 'ntaggedB': rng.randrange(0, 50),
           'N': rng.randrange(35, 5000), 'L2_N': [rng.randrange(0, 300) for _ in range(5)],
           'L0_N': rng.randrange(35, 9000)}
    f = lambda lo, hi: float(np.float32(rng.uniform(lo, hi)))
    for com in COMS:
        raw['x' + com] = [f(-0.5, 0.5) for _ in range(3)]
        raw['v' + com] = [f(-0.3, 0.3) for _ in range(3)]
        raw['sigmav3d' + com] = f(0.01, 0.4)
        raw['meanSpeed' + com] = f(0.01, 0.4)
        raw['sigmav3d_r50' + com] = f(0.01, 0.4)
        raw['meanSpeed_r50' + com] = f(0.01, 0.4)
        raw['r100' + com] = f(1e-4, 5e-3)
        raw['vcirc_max' + com] = f(0.01, 0.4)
        # principal dispersions: Min^2 + Maj^2 <= 0.95 so that Mid is a legitimate real number
        maj = rng.uniform(0.55, 0.85)
        mn = rng.uniform(0.05, min(0.5, (0.95 - maj * maj) ** 0.5))
        raw['sigmavMax_to_sigmav3d' + com + '_i16'] = int(maj * INT16SCALE)
        raw['sigmavMin_to_sigmav3d' + com + '_i16'] = int(mn * INT16SCALE)
        raw['sigmavrad_to_sigmav3d' + com + '_i16'] = _ratio_i16(rng)
        raw['sigmavtan_to_sigmav3d' + com + '_i16'] = _ratio_i16(rng)
        for r in RNAMES:
            raw[r + com + '_i16'] = _ratio_i16(rng)
        raw['sigmar' + com + '_i16'] = [_ratio_i16(rng) for _ in range(3)]
        raw['sigman' + com + '_i16'] = [_ratio_i16(rng) for _ in range(3)]
        for t in ('sigmav', 'sigmar', 'sigman'):
            raw[t + '_eigenvecs' + com + '_u16'] = rng.randrange(0, 65340)
    raw['SO_central_particle'] = [f(-0.5, 0.5) for _ in range(3)]
    raw['SO_central_density'] = f(100, 5000)
    raw['SO_radius'] = f(1e-4, 5e-3)
    raw['SO_L2max_central_particle'] = [f(-0.5, 0.5) for _ in range(3)]
    raw['SO_L2max_central_density'] = f(100, 5000)
    raw['SO_L2max_radius'] = f(1e-4, 5e-3)
    return raw


LC_DTYPES = {'N': 'u4', 'N_interp': 'u4', 'npstartA': 'u8', 'npoutA': 'u4', 'index_halo': 'i8', 'origin': 'i1',
             'pos_avg': ('f4', 3), 'pos_interp': ('f4', 3), 'vel_avg': ('f4', 3), 'vel_interp': ('f4', 3),
             'redshift_interp': 'f4'}


def add_lc_fields(rng, raw):
    f = lambda lo, hi: float(np.float32(rng.uniform(lo, hi)))
    avail = rng.random() < 0.6
    raw.update({'N_interp': rng.randrange(35, 5000), 'index_halo': rng.randrange(0, 10 ** 9), 'origin': rng.randrange(0, 9),
                'pos_avg': [f(-990, 990) for _ in range(3)] if avail else [0.0, 0.0, 0.0],
                'pos_interp': [f(-990, 990) for _ in range(3)], 'vel_avg': [f(-900, 900) for _ in range(3)],
                'vel_interp': [f(-900, 900) for _ in range(3)], 'redshift_interp': f(0.1, 2.5)})
    return raw


RAW_DTYPES = {
    'id': 'u8', 'npstartA': 'u8', 'npstartB': 'u8', 'npoutA': 'u4', 'npoutB': 'u4', 'ntaggedA': 'u4', 'ntaggedB': 'u4',
    'N': 'u4', 'L2_N': ('u4', 5), 'L0_N': 'u4', 'SO_central_particle': ('f4', 3), 'SO_central_density': 'f4',
    'SO_radius': 'f4', 'SO_L2max_central_particle': ('f4', 3), 'SO_L2max_central_density': 'f4', 'SO_L2max_radius': 'f4',
}
for _c in COMS:
    RAW_DTYPES.update({'x' + _c: ('f4', 3), 'v' + _c: ('f4', 3), 'sigmav3d' + _c: 'f4', 'meanSpeed' + _c: 'f4',
                       'sigmav3d_r50' + _c: 'f4', 'meanSpeed_r50' + _c: 'f4', 'r100' + _c: 'f4', 'vcirc_max' + _c: 'f4',
                       'sigmavMax_to_sigmav3d' + _c + '_i16': 'i2', 'sigmavMin_to_sigmav3d' + _c + '_i16': 'i2',
                       'sigmavrad_to_sigmav3d' + _c + '_i16': 'i2', 'sigmavtan_to_sigmav3d' + _c + '_i16': 'i2',
                       'sigmar' + _c + '_i16': ('i2', 3), 'sigman' + _c + '_i16': ('i2', 3)})
    for _r in RNAMES:
        RAW_DTYPES[_r + _c + '_i16'] = 'i2'
    for _t in ('sigmav', 'sigmar', 'sigman'):
        RAW_DTYPES[_t + '_eigenvecs' + _c + '_u16'] = 'u2'

CLEAN_DTYPES = {'npstartA_merge': 'i8', 'npstartB_merge': 'i8', 'npoutA_merge': 'u4', 'npoutB_merge': 'u4',
                'N_total': 'u4', 'N_merge': 'u4', 'haloindex': 'u8', 'is_merged_to': 'i8',
                'N_mainprog': ('u4', 'T'), 'vcirc_max_L2com_mainprog': ('f4', 'T'), 'sigmav3d_L2com_mainprog': ('f4', 'T'),
                'haloindex_mainprog': 'i8', 'v_L2com_mainprog': ('f4', 3)}


def gen_world(rng, max_slabs=4, max_halos=6, max_parts=4, want_clean=None, lc=False, halo_counts=None):
    box = rng.choice([50.0, 500.0, 2000.0, 1185.0, 7.5, 500, 2000])          # some headers carry ints
    vz = rng.choice([777.0, 123.0, 3200.0, 9001.5, 55.5, 4000, 777])
    if vz == box:
        vz += 1.0
    nslab = 1 if lc else (len(halo_counts) if halo_counts else rng.randrange(1, max_slabs + 1))
    inds = [0] if lc else sorted(rng.sample(range(0, 40), nslab))
    if not lc and rng.random() < 0.15:
        # superslab numbers with four digits (a simulation with more than 1000 slabs); all of one width, so that the
        # order of the file names is the order of the numbers (mixed widths sort differently as strings, and which
        # order a directory load should then follow is not something any property states)
        inds = sorted(rng.sample([1000, 1001, 1002, 1003, 1010, 1100, 1999, 2000, 2001], nslab))
    T = rng.randrange(1, 4)
    header = {'BoxSize': box, 'VelZSpace_to_kms': vz, 'ppd': float(rng.choice([64, 1000, 6912])),
              'ParticleMassHMsun': 2.1e9, 'H0': 67.36, 'SimName': 'SimWorld', 'Redshift': 0.5,
              'FullStepNumber': 580, 'OutputType': 'GroupOutput', 'SimSet': 'Verif',
              'TimeSliceRedshifts': [2.0, 1.0, 0.5], 'NumTimeSliceRedshiftsPrev_truth': T}
    # headers of simulations run in Mpc rather than Mpc/h carry hMpc = 0 and a second, different box size; the loader
    # documents BoxSize as the unit of every length-like column
    header['hMpc'] = rng.choice([1, 1, 0])
    header['BoxSizeHMpc'] = float(box) if header['hMpc'] else float(box) * 0.6736
    header['BoxSizeMpc'] = float(box) / 0.6736 if header['hMpc'] else float(box)
    serial = [1]
    # halo ids are 64-bit unsigned: now and then far beyond what a float64 (or an int64) holds exactly
    hid = [rng.choice([0, 0, 0, 2 ** 53 + 1, 2 ** 63 + 11, 2 ** 64 - 10 ** 9]) + rng.randrange(1, 1000)]

    def parts(n):
        out = list(range(serial[0], serial[0] + n))
        serial[0] += n
        return out
    cleaned = (rng.random() < 0.6) if want_clean is None else want_clean
    slabs = []
    for islab, ind in enumerate(inds):
        halos = []
        for _ in range(halo_counts[islab] if halo_counts else rng.randrange(0, max_halos + 1)):
            hid[0] += rng.randrange(1, 50)
            h = {'raw': add_lc_fields(rng, gen_halo_raw(rng, hid[0])) if lc else gen_halo_raw(rng, hid[0]),
                 'A': parts(rng.choice([0, 0, 1, 2, rng.randrange(0, max_parts + 1)])),
                 'B': parts(rng.choice([0, 1, rng.randrange(0, max_parts + 1)])),
                 'gapA': parts(rng.randrange(0, 4)), 'gapB': parts(rng.randrange(0, 4)),
                 'clean': None}
            r = rng.random()
            gone = r < 0.2                      # cleaned away: N_total == 0, no merged particles (as in real data)
            merged = (not gone) and r < 0.6
            h['clean'] = {
                'N_total': 0 if gone else h['raw']['N'] + (rng.randrange(1, 500) if merged else 0),
                'N_merge': 0 if not merged else rng.randrange(1, 500),
                'haloindex': (580 * 10 ** 12 + hid[0]) % 2 ** 64, 'is_merged_to': ((hid[0] + 1) % 2 ** 62) if gone else -1,
                'N_mainprog': [rng.randrange(0, 5000) for _ in range(T)],
                'vcirc_max_L2com_mainprog': [float(np.float32(rng.uniform(0.01, 0.4))) for _ in range(T)],
                'sigmav3d_L2com_mainprog': [float(np.float32(rng.uniform(0.01, 0.4))) for _ in range(T)],
                'haloindex_mainprog': rng.randrange(-1, 10 ** 6),
                'v_L2com_mainprog': [float(np.float32(rng.uniform(-0.3, 0.3))) for _ in range(3)],
                'mergeA': parts(rng.randrange(0, max_parts + 1)) if merged else [],
                'mergeB': parts(rng.randrange(0, max_parts + 1)) if merged else [],
                'mgapA': parts(rng.randrange(0, 3)), 'mgapB': parts(rng.randrange(0, 3)),
            }
            halos.append(h)
        slabs.append({'index': ind, 'halos': halos, 'tailA': parts(rng.randrange(0, 3)), 'tailB': parts(rng.randrange(0, 3))})
    if lc:
        cleaned = False
        header['LightConeOrigins'] = [-990.0, -990.0, -990.0, -990.0, -990.0, -2990.0, -990.0, -2990.0, -990.0]
    return {'header': header, 'slabs': slabs, 'cleaned': cleaned, 'T': T, 'layout': rng.randrange(1, 5),
            'TimeSliceRedshiftsPrev': [0.575 + 0.1 * k for k in range(T)], 'lc': bool(lc)}


_MAT_CACHE = {}


def materialize(world):
    """Large worlds are carried in a case as their generator call ({'gen': {'seed', 'kwargs'}}), not
    as tens of megabytes of JSON; this rebuilds them (pure function of the seed)."""
    if 'gen' not in world:
        return world
    import json
    import random
    key = json.dumps(world['gen'], sort_keys=True)
    if key not in _MAT_CACHE:
        _MAT_CACHE.clear()
        _MAT_CACHE[key] = gen_world(random.Random(world['gen']['seed']), **world['gen']['kwargs'])
    return _MAT_CACHE[key]


# ------------------------------------------------------------ layout -------
def slab_layout(slab):
    """File contents of one superslab: for A and B the record list of the
    particle file (gap records + halo ranges) and per halo (start, count);
    the same for the merged ranges in the cleaned_rvpid file."""
    out = {}
    for AB in 'AB':
        recs, idx = [], []
        mrecs, midx = [], []
        for h in slab['halos']:
            recs += h['gap' + AB]
            idx.append((len(recs), len(h[AB])))
            recs += h[AB]
            c = h['clean']
            mrecs += c['mgap' + AB]
            midx.append((len(mrecs), len(c['merge' + AB])))
            mrecs += c['merge' + AB]
        recs += slab['tail' + AB]
        out[AB] = {'recs': recs, 'idx': idx, 'mrecs': mrecs, 'midx': midx}
    return out


def _arr(values, dt, T=None):
    if isinstance(dt, tuple):
        base, n = dt
        n = T if n == 'T' else n
        return np.array(values, dtype=base).reshape(len(values), n)
    return np.array(values, dtype=dt)


def halo_info_tree(world, slab):
    lay = slab_layout(slab)
    cols = {}
    hs = slab['halos']
    for name, dt in RAW_DTYPES.items():
        if name in ('npstartA', 'npstartB', 'npoutA', 'npoutB'):
            AB = name[-1]
            k = 0 if name.startswith('npstart') else 1
            vals = [lay[AB]['idx'][i][k] for i in range(len(hs))]
        else:
            vals = [h['raw'][name] for h in hs]
        cols[name] = _arr(vals, dt)
    return {'data': cols, 'header': file_header(world)}


def clean_info_tree(world, slab):
    lay = slab_layout(slab)
    hs = slab['halos']
    T = world['T']
    cols = {}
    for name, dt in CLEAN_DTYPES.items():
        if name.startswith('npstart') and name.endswith('_merge'):
            AB = name[7]
            vals = [lay[AB]['midx'][i][0] for i in range(len(hs))]
        elif name.startswith('npout') and name.endswith('_merge'):
            AB = name[5]
            vals = [lay[AB]['midx'][i][1] for i in range(len(hs))]
        else:
            vals = [h['clean'][name] for h in hs]
        cols[name] = _arr(vals, dt, T)
    hdr = dict(file_header(world))
    hdr['TimeSliceRedshiftsPrev'] = list(world['TimeSliceRedshiftsPrev'])
    hdr['NumTimeSliceRedshiftsPrev'] = T
    return {'data': cols, 'header': hdr}


def file_header(world):
    h = dict(world['header'])
    h.pop('NumTimeSliceRedshiftsPrev_truth', None)
    return h


def particle_arrays(serials):
    rv = np.zeros((len(serials), 3), dtype=np.int32)
    pid = np.zeros(len(serials), dtype=np.uint64)
    for i, s in enumerate(serials):
        w, p = encode_particle(s)
        rv[i] = w
        pid[i] = p
    return rv, pid


def clean_dirs(world, root):
    """(groupdir, clean_halo_info_dir, clean_rvpid_dir, flat) for the world's layout."""
    sim, z = world['header']['SimName'], 'z0.500'
    lay = world['layout']
    if lay == 1:
        gd = os.path.join(root, sim, 'halos', z)
        cd = os.path.join(root, 'cleaning', sim, z)
        return gd, os.path.join(cd, 'cleaned_halo_info'), os.path.join(cd, 'cleaned_rvpid'), False
    if lay == 2:
        gd = os.path.join(root, 'subsuite', sim, 'halos', z)
        cd = os.path.join(root, 'cleaning', 'subsuite', sim, z)
        return gd, os.path.join(cd, 'cleaned_halo_info'), os.path.join(cd, 'cleaned_rvpid'), False
    if lay == 3:
        gd = os.path.join(root, sim, 'halos', z)
        cd = os.path.join(root, sim, 'cleaning', z)
        return gd, os.path.join(cd, 'cleaned_halo_info'), os.path.join(cd, 'cleaned_rvpid'), False
    gd = os.path.join(root, sim, 'halos', z)
    cd = os.path.join(root, sim, 'cleaning', z)
    return gd, cd, cd, True


def write_world(world, root, knobs):
    """Stub writer.  knobs: compression ('blsc' or None), cbs, junk (bool)."""
    import asdf
    from simcore import boot
    boot.register_asdf_extension()
    gd, chi, crv, flat = clean_dirs(world, root)
    written = []
    if world.get('lc'):
        return write_lc_world(world, root, knobs)

    def put(path, tree):
        os.makedirs(os.path.dirname(path), exist_ok=True)
        af = asdf.AsdfFile(tree)
        kw = {}
        if knobs.get('compression') == 'blsc':
            kw = {'all_array_compression': 'blsc', 'compression_kwargs': {'compression_block_size': knobs.get('cbs', 1 << 22)}}
        af.write_to(path, **kw)
        written.append(path)

    for slab in world['slabs']:
        i = slab['index']
        put(os.path.join(gd, 'halo_info', 'halo_info_%03d.asdf' % i), halo_info_tree(world, slab))
        lay = slab_layout(slab)
        for AB in 'AB':
            rv, pid = particle_arrays(lay[AB]['recs'])
            put(os.path.join(gd, 'halo_rv_' + AB, 'halo_rv_%s_%03d.asdf' % (AB, i)),
                {'data': {'rvint': rv}, 'header': file_header(world)})
            put(os.path.join(gd, 'halo_pid_' + AB, 'halo_pid_%s_%03d.asdf' % (AB, i)),
                {'data': {'packedpid': pid}, 'header': file_header(world)})
        if world['cleaned']:
            put(os.path.join(chi, 'cleaned_halo_info_%03d.asdf' % i), clean_info_tree(world, slab))
            data = {}
            for AB in 'AB':
                rv, pid = particle_arrays(lay[AB]['mrecs'])
                data['rvint_' + AB] = rv
                data['packedpid_' + AB] = pid
            put(os.path.join(crv, 'cleaned_rvpid_%03d.asdf' % i), {'data': data, 'header': clean_info_tree(world, slab)['header']})
    if knobs.get('junk'):
        for d in {os.path.dirname(p) for p in written}:
            for name in ('checksums.crc32', 'header', 'halo_info_000.asdf~', '.halo_info_001.asdf.swp'):
                with open(os.path.join(d, name), 'w') as fh:
                    fh.write('junk\n')
    return gd, written


def lc_particle(s):
    """Light-cone subsample files store unpacked columns; the serial is encoded in each."""
    return [float(s), float(s) + 0.25, float(s) + 0.5], [0.5 * s, -0.5 * s, 0.125 * s], int(s)


def write_lc_world(world, root, knobs):
    import asdf
    gd = os.path.join(root, 'halo_light_cones', world['header']['SimName'], 'z0.500')
    os.makedirs(gd)
    slab = world['slabs'][0]
    lay = slab_layout(slab)['A']
    hs = slab['halos']
    cols = {}
    for name, dt in list(RAW_DTYPES.items()) + list(LC_DTYPES.items()):
        if name in LC_DTYPES or 'L2' in name:
            if name == 'npstartA':
                vals = [lay['idx'][i][0] for i in range(len(hs))]
            elif name == 'npoutA':
                vals = [lay['idx'][i][1] for i in range(len(hs))]
            else:
                vals = [h['raw'][name] for h in hs]
            cols[name] = _arr(vals, LC_DTYPES.get(name, dt))
    kw = {}
    if knobs.get('compression') == 'blsc':
        kw = {'all_array_compression': 'blsc', 'compression_kwargs': {'compression_block_size': knobs.get('cbs', 1 << 22)}}
    p1 = os.path.join(gd, 'lc_halo_info.asdf')
    asdf.AsdfFile({'data': cols, 'header': file_header(world)}).write_to(p1, **kw)
    recs = lay['recs']
    pos = np.array([lc_particle(s)[0] for s in recs], dtype=np.float32).reshape(-1, 3)
    vel = np.array([lc_particle(s)[1] for s in recs], dtype=np.float32).reshape(-1, 3)
    pid = np.array([lc_particle(s)[2] for s in recs], dtype=np.int64)
    p2 = os.path.join(gd, 'lc_pid_rv.asdf')
    asdf.AsdfFile({'data': {'pos': pos, 'vel': vel, 'pid': pid}, 'header': file_header(world)}).write_to(p2, **kw)
    if knobs.get('junk'):
        with open(os.path.join(gd, 'checksums.crc32'), 'w') as fh:
            fh.write('junk\n')
    return gd, [p1, p2]


# ------------------------------------------------------------ oracle -------
def expected_particles(world, slab_indices, cleaned, AB_list, keep=None):
    """Per loaded halo row (in file order): {'A': [serials], 'B': [...]}.
    ``keep`` optionally maps slab index -> boolean list (filter mask)."""
    rows = []
    for slab in _slabs(world, slab_indices):
        for k, h in enumerate(slab['halos']):
            if keep is not None and not keep[slab['index']][k]:
                continue
            row = {}
            for AB in AB_list:
                if cleaned:
                    orig = [] if h['clean']['N_total'] == 0 else list(h[AB])
                    row[AB] = orig + list(h['clean']['merge' + AB])
                else:
                    row[AB] = list(h[AB])
            rows.append(row)
    return rows


def _slabs(world, slab_indices):
    by = {s['index']: s for s in world['slabs']}
    return [by[i] for i in slab_indices]


def expected_column(world, slab_indices, name, convert_units=True, cleaned=False, keep=None):
    """Documented value of a user-facing halo column, from the stored values.
    Returns (float64/int array, kind) where kind in {'exact', 'float'}; or None
    for columns this oracle does not model (eigenvectors)."""
    box = world['header']['BoxSize'] if convert_units else 1.0
    V = world['header']['VelZSpace_to_kms'] if convert_units else 1.0
    hs = []
    for slab in _slabs(world, slab_indices):
        for k, h in enumerate(slab['halos']):
            if keep is None or keep[slab['index']][k]:
                hs.append(h)
    if not hs:
        return np.zeros(0), 'empty'

    def rawf(key):
        v = [h['raw'][key] for h in hs]
        return np.array(v, dtype=np.float64)
    import re
    if name == 'N' and cleaned:
        return np.array([h['clean']['N_total'] for h in hs], dtype=np.float64), 'exact'
    if world.get('lc'):
        if name in ('N_interp', 'index_halo', 'pos_avg', 'vel_avg', 'redshift_interp'):
            return rawf(name), 'exact'
        if name == 'origin':
            return rawf(name) % 3, 'exact'
        if name in ('pos_interp', 'vel_interp'):
            avail = np.any(rawf('pos_avg') != 0, axis=1)
            return np.where(avail[:, None], rawf(name.replace('interp', 'avg')), rawf(name)), 'exact'
    if name == 'id':
        return np.array([int(h['raw']['id']) for h in hs], dtype=object), 'exact-int'
    if name in ('haloindex', 'is_merged_to') and cleaned:
        return np.array([int(h['clean'][name]) for h in hs], dtype=object), 'exact-int'
    if name in ('ntaggedA', 'ntaggedB', 'N', 'L2_N', 'L0_N', 'SO_central_density', 'SO_L2max_central_density'):
        return rawf(name), 'exact'
    if name in CLEAN_DTYPES and not name.startswith('np'):
        return np.array([h['clean'][name] for h in hs], dtype=np.float64), 'exact'
    m = re.fullmatch(r'(x|r100)(_(?:L2)?com)', name)
    if m:
        return rawf(name) * box, 'float1'
    if name in ('SO_central_particle', 'SO_radius', 'SO_L2max_central_particle', 'SO_L2max_radius'):
        return rawf(name) * box, 'float1'
    m = re.fullmatch(r'(v|sigmav3d|meanSpeed|sigmav3d_r50|meanSpeed_r50|vcirc_max)(_(?:L2)?com)', name)
    if m:
        return rawf(name) * V, 'float1'
    m = re.fullmatch(r'(r\d{1,2}|rvcirc_max)(_(?:L2)?com)', name)
    if m:
        return rawf(name + '_i16') / INT16SCALE * rawf('r100' + m[2]) * box, 'float3'
    m = re.fullmatch(r'sigmav(Min|Maj|rad|tan)(_(?:L2)?com)', name)
    if m:
        stem = {'Min': 'Min', 'Maj': 'Max', 'rad': 'rad', 'tan': 'tan'}[m[1]]
        return rawf('sigmav%s_to_sigmav3d%s_i16' % (stem, m[2])) / INT16SCALE * rawf('sigmav3d' + m[2]) * V, 'float3'
    m = re.fullmatch(r'sigmavMid(_(?:L2)?com)', name)
    if m:
        s3 = rawf('sigmav3d' + m[1]) * V
        mx = rawf('sigmavMax_to_sigmav3d%s_i16' % m[1]) / INT16SCALE * s3
        mn = rawf('sigmavMin_to_sigmav3d%s_i16' % m[1]) / INT16SCALE * s3
        return np.sqrt(s3 * s3 - mx * mx - mn * mn), 'mid:' + m[1]
    m = re.fullmatch(r'sigmar(_(?:L2)?com)', name)
    if m:
        return rawf(name + '_i16') / INT16SCALE * rawf('r100' + m[1])[:, None] * box, 'float3'
    m = re.fullmatch(r'sigman(_(?:L2)?com)', name)
    if m:
        return rawf(name + '_i16') / INT16SCALE * box, 'float3'
    return None, 'unmodelled'
