"""Loading a simulated world through the repository's CompaSOHaloCatalog with
the legal environment faults switched on by the case: read-chunk size, block
compression, shuffled directory listings, junk files, path spelling, allocator
poison.  Also the particle-level oracle shared by C01 and C03."""
import contextlib
import hashlib
import os
import pathlib
import random
import shutil
import tempfile

import numpy as np

from simcore.core import bump
from . import world as W

IO_BLOCKS = [1, 3, 7, 13, 64, 4096, None, None]
_LOADS = [0]


def gen_knobs(rng):
    return {'compression': rng.choice([None, 'blsc', 'blsc']), 'cbs': rng.choice([16, 64, 1 << 10, 1 << 22]),
            'junk': rng.random() < 0.4, 'io_block': rng.choice(IO_BLOCKS), 'shuffle_glob': rng.random() < 0.5,
            'glob_seed': rng.randrange(1 << 20), 'poison': rng.choice(['A', 'B']),
            'prelude_seed': rng.randrange(1 << 20) if rng.random() < 0.3 else None,
            'failed_load_before': rng.random() < 0.2}


@contextlib.contextmanager
def scratch():
    base = os.environ.get('VERIF_TMP') or ('/dev/shm' if os.path.isdir('/dev/shm') else tempfile.gettempdir())
    d = tempfile.mkdtemp(prefix='verif-world-', dir=base)
    _LOADS[0] = 0          # the load counter (it seeds the task order of simulated thread pools) is per case
    try:
        yield d
    finally:
        shutil.rmtree(d, ignore_errors=True)


@contextlib.contextmanager
def environment(knobs, faults=None):
    """Apply the knobs for the duration of a load."""
    import asdf
    from instr import rt
    from simcore import boot
    boot.register_asdf_extension()
    rt.Alloc.set(knobs.get('poison', 'A'))
    from instr import simpool
    simpool.Sim.seed(knobs.get('glob_seed', 0) + _LOADS[0])
    _LOADS[0] += 1
    cfg = asdf.get_config()
    old_block = cfg.io_block_size
    orig_glob = pathlib.Path.glob
    if knobs.get('io_block') is not None:
        cfg.io_block_size = knobs['io_block']
    if faults is not None:
        bump(faults, 'io_block_size=%s' % knobs.get('io_block'))
        bump(faults, 'compression=%s' % knobs.get('compression'))
        if knobs.get('junk'):
            bump(faults, 'junk-files')
    if knobs.get('shuffle_glob'):
        r = random.Random(knobs.get('glob_seed', 0))

        def glob(self, pattern, **kw):
            res = list(orig_glob(self, pattern, **kw))
            r.shuffle(res)
            return iter(res)
        pathlib.Path.glob = glob
        if faults is not None:
            bump(faults, 'shuffled-directory-listing')
    try:
        yield
    finally:
        cfg.io_block_size = old_block
        pathlib.Path.glob = orig_glob


def failed_loads_before(gd, knobs, faults=None):
    """History: earlier in this process the user asked for something the catalogue cannot give (an unknown field, an
    unknown unpack_bits name) and got an exception; whatever that left behind must not change the valid loads."""
    if not knobs.get('failed_load_before') or gd is None:
        return
    for kw in ({'fields': ['id', 'no_such_field_xyz'], 'subsamples': False, 'cleaned': False},
               {'fields': ['id'], 'subsamples': {'A': True, 'pid': True}, 'unpack_bits': ['no_such_bits'], 'cleaned': False},
               {'fields': 'all', 'subsamples': {'A': True, 'pos': True}, 'cleaned': True, 'cleandir': os.path.join(str(gd) if isinstance(gd, (str, os.PathLike)) else '.', 'nowhere')}):
        try:
            with environment({'poison': knobs.get('poison', 'A')}):
                load(gd, **kw)
        except Exception:
            pass
    if faults is not None:
        bump(faults, 'failed-loads-before')


def prelude(world, knobs, root, faults=None):
    """History: before the operations of the case, another catalogue of the *same* BoxSize but different
    VelZSpace_to_kms / ppd / contents is loaded in the same process (what a user looping over redshift
    slices does).  Results of the case must not depend on it; making the history part of the case keeps
    any such dependence replayable in a fresh process."""
    seed = knobs.get('prelude_seed')
    if seed is None:
        return
    from . import world as W
    w2 = W.gen_world(random.Random(seed), max_slabs=2, max_halos=3, max_parts=2, want_clean=True)
    w2['header']['BoxSize'] = world['header']['BoxSize']
    w2['header']['VelZSpace_to_kms'] = world['header']['VelZSpace_to_kms'] * 1.75 + 11.0
    w2['header']['ppd'] = world['header']['ppd'] * 2
    w2['header']['SimName'] = 'PreludeSim'
    sub = os.path.join(root, 'prelude')
    os.makedirs(sub, exist_ok=True)
    gd, _ = W.write_world(w2, sub, {'compression': None, 'junk': False})
    with environment({'poison': knobs.get('poison', 'A')}):
        for convert in (True, False):
            load(gd, cleaned=True, subsamples=True, fields='all', convert_units=convert)
    if faults is not None:
        bump(faults, 'prior-load-of-another-catalogue-in-the-same-process')


def tree_digest(root):
    h = hashlib.sha256()
    for dp, dn, fn in sorted(os.walk(root)):
        for f in sorted(fn):
            p = os.path.join(dp, f)
            h.update(p.encode())
            with open(p, 'rb') as fh:
                h.update(fh.read())
    return h.hexdigest()


def path_argument(world, gd, spec):
    """spec: {'kind': 'zdir'|'halo_info'|'file'|'list', 'order': [slab indices]}.
    Returns (path argument for the constructor, slab indices in expected row order)."""
    inds = [s['index'] for s in world['slabs']]
    fn = lambda i: os.path.join(gd, 'halo_info', 'halo_info_%03d.asdf' % i)
    kind = spec['kind']
    if world.get('lc'):
        if kind in ('file', 'list'):
            return os.path.join(gd, 'lc_halo_info.asdf'), [0]
        return gd + ('/' if spec.get('slash') else ''), [0]
    if kind == 'zdir':
        return gd + ('/' if spec.get('slash') else ''), sorted(inds)
    if kind == 'halo_info':
        return os.path.join(gd, 'halo_info'), sorted(inds)
    if kind == 'file':
        i = spec['order'][0]
        return fn(i), [i]
    order = list(spec['order'])
    if spec.get('as_path'):
        return [pathlib.Path(fn(i)) for i in order], order
    return [fn(i) for i in order], order


def subsamples_argument(case):
    """The case's subsample selection as the user would spell it: for dictionaries the key order is a legal degree
    of freedom (``dict(B=True, A=True, pos=True)``), drawn from ``case['sub_order']``."""
    import copy
    sub = copy.deepcopy(case['subsamples'])
    if isinstance(sub, dict) and case.get('sub_order') is not None:
        items = sorted(sub.items())
        random.Random(case['sub_order']).shuffle(items)
        sub = dict(items)
    return sub


def load(gd_arg, **kw):
    from abacusnbody.data.compaso_halo_catalog import CompaSOHaloCatalog
    return CompaSOHaloCatalog(gd_arg, **kw)


_FRESH = r'''
import sys, json, hashlib
sys.path.insert(0, %(verif)r)
from simcore import boot
boot.setup()
boot.register_asdf_extension()
import numpy as np
from e2_world import catalog as C
kw = json.loads(%(kw)r)
cat = C.load(%(gd)r, **kw)
out = {}
for c in cat.halos.colnames:
    a = np.asarray(cat.halos[c])
    out[c] = hashlib.sha256(repr((str(a.dtype), a.shape)).encode() + a.tobytes()).hexdigest()
sys.stdout.write('FRESH ' + json.dumps(out))
'''


def column_digests(t):
    import hashlib
    out = {}
    for c in t.colnames:
        a = np.asarray(t[c])
        out[c] = hashlib.sha256(repr((str(a.dtype), a.shape)).encode() + a.tobytes()).hexdigest()
    return out


def fresh_process_columns(gd, **kw):
    """The same load in a new interpreter that has loaded nothing before: the reference for 'depends only on the
    catalogue files and the options' when the case has a history.  Returns {column: digest} or raises RuntimeError."""
    import json
    import subprocess
    import sys
    from simcore import boot
    code = _FRESH % {'verif': boot.VERIF, 'kw': json.dumps(kw), 'gd': str(gd)}
    env = dict(os.environ, PYTHONHASHSEED='0', PYTHONWARNINGS='ignore')
    p = subprocess.run([sys.executable, '-c', code], capture_output=True, text=True, timeout=600, env=env)
    if p.returncode != 0 or 'FRESH ' not in p.stdout:
        raise RuntimeError('fresh-process reference failed: ' + (p.stderr or p.stdout)[-400:])
    return json.loads(p.stdout.split('FRESH ', 1)[1])


def table_bytes(t):
    out = {}
    for c in t.colnames:
        a = np.asarray(t[c])
        out[c] = (str(a.dtype), a.shape, a.tobytes())
    return out


# ---------------------------------------------------- particle oracle -------
def identify(sub, lo, hi, world):
    """Serial numbers of subsamples[lo:hi] recovered independently from each
    loaded column; returns (serials, problems)."""
    box = world['header']['BoxSize']
    ppd = world['header']['ppd']
    problems = []
    got = {}
    n = hi - lo
    names = sub.colnames
    if 'pos' in names:
        p = np.asarray(sub['pos'][lo:hi], dtype=np.float64)
        xi = np.rint(p[:, 0] * 1e6 / box).astype(np.int64) if n else np.zeros(0, dtype=np.int64)
        got['pos'] = (xi + 499991).tolist()
    if 'vel' in names:
        v = np.asarray(sub['vel'][lo:hi], dtype=np.float64)
        q = 6000.0 / 2048
        vx = np.rint(v[:, 0] / q).astype(np.int64) + 2048 if n else np.zeros(0, dtype=np.int64)
        vy = np.rint(v[:, 1] / q).astype(np.int64) + 2048 if n else np.zeros(0, dtype=np.int64)
        got['vel'] = (vx + (vy << 12)).tolist()
    if 'pid' in names:
        pid = np.asarray(sub['pid'][lo:hi]).astype(np.int64)
        got['pid'] = ((pid & 0x7FFF) | (((pid >> 16) & 0x7FFF) << 15)).tolist()
    if 'rvint' in names:
        w = np.asarray(sub['rvint'][lo:hi]).astype(np.int64)
        got['rvint'] = ((w[:, 0] >> 12) + 499991).tolist() if n else []
    if 'packedpid' in names:
        pp = np.asarray(sub['packedpid'][lo:hi]).astype(np.uint64)
        got['packedpid'] = [(int(v) & 0x7FFF) | (((int(v) >> 16) & 0x7FFF) << 15) for v in pp]
    return got


def check_values(sub, lo, serials, world, out_problem):
    """Full value check of subsamples[lo:lo+len(serials)] against the
    reference decoders, within the documented quanta."""
    box = world['header']['BoxSize']
    ppd = world['header']['ppd']
    n = len(serials)
    if n == 0:
        return None
    rv, packed = W.particle_arrays(serials)
    pos, vel = W.decode_rvint(rv, box)
    ref = W.decode_pid(packed, box, ppd)
    hi = lo + n
    names = sub.colnames
    qpos = box / 1e6
    qvel = 6000.0 / 2048
    if 'pos' in names:
        d = np.abs(np.asarray(sub['pos'][lo:hi], dtype=np.float64) - pos)
        if (d > 0.5 * qpos + 4e-7 * box).any():
            return 'pos differs from the RVint decoding by %g (quantum %g)' % (d.max(), qpos)
    if 'vel' in names:
        d = np.abs(np.asarray(sub['vel'][lo:hi], dtype=np.float64) - vel)
        if (d > 1e-3 * qvel).any():
            return 'vel differs from the RVint decoding by %g (quantum %g)' % (d.max(), qvel)
    for k in ('pid', 'tagged', 'packedpid'):
        if k in names and not np.array_equal(np.asarray(sub[k][lo:hi]).astype(np.uint64), ref[k].astype(np.uint64)):
            return '%s differs from the documented aux decoding' % k
    if 'lagr_idx' in names and not np.array_equal(np.asarray(sub['lagr_idx'][lo:hi]).astype(np.int64), ref['lagr_idx']):
        return 'lagr_idx differs'
    if 'density' in names and not np.allclose(np.asarray(sub['density'][lo:hi], dtype=np.float64), ref['density'], rtol=1e-6):
        return 'density differs'
    if 'lagr_pos' in names:
        d = np.abs(np.asarray(sub['lagr_pos'][lo:hi], dtype=np.float64) - ref['lagr_pos'])
        # float32 evaluation of idx * float32(box / ppd) - float32(box / 2): the bound scales with the product
        # (serial numbers of large simulated catalogues put lattice indices far beyond ppd)
        if (d > 1e-6 * box + 3e-7 * (np.abs(ref['lagr_pos']) + box / 2)).any():
            return 'lagr_pos differs by %g' % d.max()
    if 'rvint' in names and not np.array_equal(np.asarray(sub['rvint'][lo:hi]), rv):
        return 'rvint passthrough is not bit-exact'
    return None


def check_lc_subsamples(cat, world, keep=None):
    """Light-cone layout: the stored npstartA/npoutA index the single lc_pid_rv file directly."""
    from . import world as W
    slab = world['slabs'][0]
    lay = W.slab_layout(slab)['A']
    halos, sub = cat.halos, cat.subsamples
    kept = [(i, h) for i, h in enumerate(slab['halos']) if keep is None or keep[i]]
    if len(halos) != len(kept):
        return 'row-count', '%d rows, %d halos expected' % (len(halos), len(kept))
    if len(sub) != len(lay['recs']):
        return 'subsample-length', 'len(subsamples)=%d, file holds %d records' % (len(sub), len(lay['recs']))
    st = np.asarray(halos['npstartA']).astype(np.int64)
    ct = np.asarray(halos['npoutA']).astype(np.int64)
    for r, (i0, h) in enumerate(kept):
        want = list(h['A'])
        if ct[r] != len(want) or st[r] != lay['idx'][i0][0]:
            return 'wrong-count', 'row %d: (npstartA, npoutA)=(%d,%d), stored (%d,%d)' % (r, st[r], ct[r], lay['idx'][i0][0], len(want))
        lo, hi = int(st[r]), int(st[r] + ct[r])
        for col in sub.colnames:
            a = np.asarray(sub[col][lo:hi])
            if col == 'pos':
                got = np.rint(a[:, 0]).astype(np.int64).tolist() if len(a) else []
                exact = np.array([W.lc_particle(s)[0] for s in want], dtype=np.float32).reshape(-1, 3)
            elif col == 'vel':
                got = np.rint(a[:, 0] * 2).astype(np.int64).tolist() if len(a) else []
                exact = np.array([W.lc_particle(s)[1] for s in want], dtype=np.float32).reshape(-1, 3)
            elif col == 'pid':
                got = a.astype(np.int64).tolist()
                exact = np.array(want, dtype=np.int64)
            else:
                continue
            if got != want:
                return 'wrong-particles', {'row': r, 'column': col, 'got_serials': got[:8], 'expected_serials': want[:8]}
            if not np.array_equal(a, exact):
                return 'wrong-particle-values', {'row': r, 'column': col}
    return None


def check_subsamples(cat, world, rows, AB_list):
    """C01 oracle.  rows: expected per-halo {'A': serials, 'B': serials} in row
    order.  Returns None or (kind, detail)."""
    halos, sub = cat.halos, cat.subsamples
    if len(halos) != len(rows):
        return 'row-count', 'halo rows %d, expected %d' % (len(halos), len(rows))
    total = sum(len(r[AB]) for r in rows for AB in AB_list)
    if len(sub) != total:
        return 'subsample-length', 'len(subsamples)=%d, expected sum of counts %d' % (len(sub), total)
    off = 0
    for AB in AB_list:
        if ('npstart' + AB) not in halos.colnames or ('npout' + AB) not in halos.colnames:
            return 'missing-index-column', 'npstart%s/npout%s not in the halo table' % (AB, AB)
        st = np.asarray(halos['npstart' + AB]).astype(np.int64)
        ct = np.asarray(halos['npout' + AB]).astype(np.int64)
        for r, row in enumerate(rows):
            want = row[AB]
            if ct[r] != len(want):
                return 'wrong-count', 'row %d subsample %s: npout=%d, expected %d' % (r, AB, ct[r], len(want))
            if st[r] != off:
                return 'not-contiguous', 'row %d subsample %s: npstart=%d, expected %d (contiguous, A before B)' % (r, AB, st[r], off)
            if st[r] < 0 or st[r] + ct[r] > len(sub):
                return 'slice-out-of-table', 'row %d subsample %s: [%d,%d) outside table of %d' % (r, AB, st[r], st[r] + ct[r], len(sub))
            got = identify(sub, int(st[r]), int(st[r] + ct[r]), world)
            for col, serials in got.items():
                if serials != want:
                    return 'wrong-particles', {'row': r, 'subsample': AB, 'column': col, 'got_serials': serials[:8],
                                               'expected_serials': want[:8]}
            bad = check_values(sub, int(st[r]), want, world, None)
            if bad:
                return 'wrong-particle-values', {'row': r, 'subsample': AB, 'what': bad}
            off += len(want)
    return None
