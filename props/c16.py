"""C16 -- read_asdf returns exactly the requested particle columns.

Engine E2: particle files of every kind (rvint, pack9 with cell headers
interleaved so that fewer rows are decoded than records stored, packedpid /
pid), snapshot and light-cone headers, files with two or none of the known raw
columns, are written by the stub writer and read by the repository's read_asdf
under the storage knobs (chunk size, compression framing) and the poisoned
allocator (the output buffers are np.empty tables truncated to the decoded
count).
"""
import copy
import os

import numpy as np

from simcore.core import new_outcome, violation, bump

PID = 'C16'
QUICK_RUNS = 2000
QUICK_SECONDS = 150
THOROUGH_SECONDS = 900
CASE_TIMEOUT = 300
LEVEL = 'exploration'
RULE = ('case = (file kind rvint / pack9 / packedpid / pid / two raw columns / none, 0-40 records, pack9 headers interleaved, '
        'header snapshot or light-cone, 2-4 load requests: default, subsets of loadable columns in seeded order, '
        'float32/float64, deprecated load_pos/load_vel, explicit colname; knobs). non-trivial = >= 1 particle and >= 2 '
        'different column requests compared; distinct = distinct (kind, n bucket, requests, dtype, header kind, io_block)')
COMPONENTS = {'real': ['data/read_abacus.py read_asdf/_resolve_columns, data/bitpacked.py, data/pack9.py (compiled decoders)'],
              'stub': ['Abacus particle output (stub writer)', 'blosc codec']}
ASSUMPTIONS = ['pack9 reference decoder written from the documented record layout (12-bit fields biased by 2048, cell header '
               'fields biased by 2000); values compared within the format quantum',
               'meta must contain every header entry unchanged (the reader may add SubsampleFraction for light-cone outputs)']

PIDCOLS = ['pid', 'lagr_pos', 'tagged', 'density', 'lagr_idx']


def gen(rng, tier):
    from e2_world import catalog as C
    kind = rng.choice(['rvint', 'rvint', 'pack9', 'pack9', 'packedpid', 'pid', 'two', 'none'])
    n = rng.choice([0, 1, 2, 5, rng.randrange(0, 41)])
    if rng.random() < 0.01 and kind != 'pack9':
        n = rng.choice([65536, 100000])
    serials = [rng.randrange(1, 900000) for _ in range(n)]
    box = rng.choice([50.0, 500.0, 2000.0])
    header = {'BoxSize': box, 'VelZSpace_to_kms': rng.choice([777.0, 3200.0]), 'ppd': rng.choice([64.0, 1000.0, 1728 ** (1 / 3), 216 ** (1 / 3), 1000 ** (1 / 3), 343 ** (1 / 3)]),
              'SimName': 'SimWorld', 'Redshift': 0.5}
    if rng.random() < 0.3:
        header.update({'OutputType': 'LightCone', 'SimSet': rng.choice(['AbacusSummit', 'Other']),
                       'ParticleSubsampleA': 0.03, 'ParticleSubsampleB': 0.07})
    else:
        header['OutputType'] = 'TimeSlice'
    # pack9: records; 'H' = cell header
    recs = []
    if kind == 'pack9':
        cpd = rng.choice([3, 15, 125])
        recs.append(['H', cpd, rng.randrange(100, 1800), [rng.randrange(cpd) for _ in range(3)]])
        for s in serials:
            if rng.random() < 0.25:
                recs.append(['H', cpd, rng.randrange(100, 1800), [rng.randrange(cpd) for _ in range(3)]])
            recs.append(['P', s])
        if rng.random() < 0.3:
            recs.append(['H', cpd, 500, [0, 0, 0]])      # trailing header: decoded count < stored records
    reqs = []
    rvlike = kind in ('rvint', 'pack9')
    for _ in range(rng.randrange(2, 5)):
        r = {'dtype': rng.choice(['f4', 'f4', 'f8'])}
        style = rng.choice(['default', 'load', 'load', 'deprecated'] if rvlike else ['default', 'load', 'load'])
        if style == 'load':
            if rvlike:
                r['load'] = rng.choice([['pos'], ['vel'], ['pos', 'vel'], ['vel', 'pos'], []])     # [] = no columns
            else:
                k = rng.randrange(0 if rng.random() < 0.15 else 1, len(PIDCOLS) + 1)
                r['load'] = rng.sample(PIDCOLS, k) + (['aux'] if rng.random() < 0.2 else [])
        elif style == 'deprecated':
            r['load_pos'] = rng.choice([True, False, None])
            r['load_vel'] = rng.choice([True, False, None])
            if r['load_pos'] is None and r['load_vel'] is None:
                r['load_pos'] = True
        reqs.append(r)
    return {'kind': kind, 'serials': serials, 'recs': recs, 'header': header, 'requests': reqs,
            'explicit_colname': rng.random() < 0.3, 'knobs': C.gen_knobs(rng), 'failed_call_before': rng.random() < 0.2}


# ------------------------------------------------------------ pack9 --------
def _p9_bytes(fields):
    """six 12-bit unsigned fields -> 9 bytes (documented nibble layout)."""
    s = fields
    return [s[0] >> 4, ((s[0] & 0xF)) | ((s[1] >> 8) << 4), s[1] & 0xFF,
            s[2] >> 4, ((s[2] & 0xF)) | ((s[3] >> 8) << 4), s[3] & 0xFF,
            s[4] >> 4, ((s[4] & 0xF)) | ((s[5] >> 8) << 4), s[5] & 0xFF]


def build_pack9(recs, box, vz):
    data, pos, vel = [], [], []
    state = None
    for r in recs:
        if r[0] == 'H':
            cpd, vs, cell = r[1], r[2], r[3]
            f = [0xFF0, cpd - 2000 + 2048, vs - 2000 + 2048] + [c - 2000 + 2048 for c in cell]
            data.append(_p9_bytes([x & 0xFFF for x in f]))
            assert data[-1][0] == 0xFF
            csize = box / cpd
            state = (csize, vs * 0.0005 / cpd * vz, [(c + 0.5) * csize - box / 2 for c in cell])
        else:
            s = r[1]
            off = [(s % 3999) - 1999, ((s * 7) % 3999) - 1999, ((s * 13) % 3999) - 1999,
                   (s % 4001) - 2000, ((s // 4001) % 4001) - 2000, ((s * 5) % 4001) - 2000]
            f = [o + 2048 for o in off]
            b = _p9_bytes(f)
            assert b[0] != 0xFF
            data.append(b)
            csize, vscale, centre = state
            pos.append([off[k] * 0.0005 * csize + centre[k] for k in range(3)])
            vel.append([off[3 + k] * vscale for k in range(3)])
    return (np.array(data, dtype=np.uint8).reshape(-1, 9), np.array(pos, dtype=np.float64).reshape(-1, 3),
            np.array(vel, dtype=np.float64).reshape(-1, 3))


def _expected_cols(kind, req):
    rvlike = kind in ('rvint', 'pack9')
    if 'load' in req:
        return list(req['load'])
    if 'load_pos' in req or 'load_vel' in req:
        lp, lv = req.get('load_pos'), req.get('load_vel')
        cols = []
        if lp or (lp is None and lv is False):
            cols.append('pos')
        if lv or (lv is None and lp is False):
            cols.append('vel')
        return cols
    return ['pos', 'vel'] if rvlike else ['pid']


DS_MAX = 20000
DS_STEP = 2500
DS_THREADS = (1, 2, 3, 4, 8, 16)


def sweep(tier):
    """(record count, thread count) sweep of the compiled decoders read_asdf hands the raw column to: every record
    count 0..DS_MAX and seeded samples up to 300000, for each numba thread count -- a decoder that splits its input
    between threads or blocks misplaces rows only for particular (count, threads) pairs."""
    top = DS_MAX * (3 if tier == 'thorough' else 1)
    for kern in ('rvint', 'pids', 'pack9'):
        for T in DS_THREADS:
            for lo in range(0, top, DS_STEP):
                yield {'dsweep': {'kernel': kern, 'T': T, 'lo': lo, 'hi': lo + DS_STEP, 'extra': 0}}
            yield {'dsweep': {'kernel': kern, 'T': T, 'lo': 0, 'hi': 0, 'extra': 150 if tier == 'thorough' else 40}}


def _decoder_sweep(case, out):
    import random
    import numba
    from e2_world import world as W
    from instr import rt
    from abacusnbody.data import bitpacked, pack9
    d = case['dsweep']
    kern, T = d['kernel'], d['T']
    rr = random.Random(1000 * d['lo'] + T)
    sizes = list(range(d['lo'], d['hi'])) + sorted(rr.randrange(DS_MAX, 300000) for _ in range(d['extra']))
    if not sizes:
        return out
    nmax = max(sizes) + 1
    g = np.random.default_rng(16)
    box, vz, ppd = 500.0, 777.0, 64
    site = {'rvint': 'bitpacked.unpack_rvint', 'pids': 'bitpacked.unpack_pids', 'pack9': 'pack9.unpack_pack9'}[kern] + '[compiled]'
    if kern == 'rvint':
        raw = g.integers(-2 ** 31, 2 ** 31 - 1, (nmax, 3), dtype=np.int64).astype(np.int32)
        tp, tv = W.decode_rvint(raw, box)

        def call(n):
            p, v = bitpacked.unpack_rvint(raw[:n], box)
            return {'pos': p, 'vel': v}, n
    elif kern == 'pids':
        raw = g.integers(0, 2 ** 63 - 1, nmax, dtype=np.int64).astype(np.uint64)

        def call(n):
            r = bitpacked.unpack_pids(raw[:n], box=box, ppd=ppd, pid=True, lagr_pos=True, tagged=True, density=True, lagr_idx=True)
            return dict(r), n
    else:
        recs = [['H', 15, 500, [1, 2, 3]]]
        for i in range(nmax):
            if g.random() < 0.01:
                recs.append(['H', 15, int(g.integers(100, 1800)), [int(x) for x in g.integers(0, 15, 3)]])
            recs.append(['P', int(g.integers(1, 900000))])
        recs = recs[:nmax]
        raw, tp, tv = build_pack9(recs, box, vz)
        nparts = np.cumsum([r[0] == 'P' for r in recs])

        def call(n):
            p, v = pack9.unpack_pack9(raw[:n], box, vz)
            return {'pos': p, 'vel': v}, (int(nparts[n - 1]) if n else 0)
    old = numba.get_num_threads()
    try:
        # the decoding of the longest input on one thread, checked against the documented layout, is the reference
        numba.set_num_threads(1)
        rt.Alloc.set('A')
        full, nfull = call(nmax)
        if kern in ('rvint', 'pack9'):
            q = box / 1e6 if kern == 'rvint' else 0.0005 * box / 3
            okp = np.abs(np.asarray(full['pos'][:nfull], dtype=np.float64) - tp[:nfull]) <= 0.5 * q + 4e-7 * box
            okv = np.abs(np.asarray(full['vel'][:nfull], dtype=np.float64) - tv[:nfull]) <= 2e-6 * np.abs(tv[:nfull]) + 1e-3
            if not (okp.all() and okv.all()):
                violation(out, 'wrong-values', site, {'records': nmax, 'threads': 1})
                return out
        else:
            t = W.decode_pid(raw, box, ppd)
            for c in ('pid', 'tagged', 'lagr_idx'):
                if not np.array_equal(np.asarray(full[c]).astype(np.int64), np.asarray(t[c]).astype(np.int64)):
                    violation(out, 'wrong-values', site, {'column': c, 'records': nmax, 'threads': 1})
                    return out
        numba.set_num_threads(T)
        for n in sizes:
            for poison in (('A', 'B') if n % 7 == 0 else ('A',)):
                rt.Alloc.set(poison)
                got, cnt = call(n)
                for c, a in got.items():
                    a = np.asarray(a)
                    if len(a) != cnt:
                        violation(out, 'wrong-row-count', site, {'column': c, 'records': n, 'threads': T, 'rows': len(a), 'expected': cnt})
                        return out
                    if a.tobytes() != np.asarray(full[c])[:cnt].tobytes():
                        bad = np.nonzero((a != np.asarray(full[c])[:cnt]).reshape(cnt, -1).any(axis=1))[0]
                        violation(out, 'wrong-values', site, {'column': c, 'records': n, 'threads': T,
                                                              'first_bad_row': int(bad[0]) if len(bad) else None, 'bad_rows': int(len(bad))})
                        return out
    finally:
        numba.set_num_threads(old)
        rt.Alloc.set('A')
    bump(out['faults'], 'numba-threads=%d' % T)
    bump(out['faults'], 'poisoned-allocations', len(sizes))
    bump(out['probes'], 'decoder-size-sweep:' + kern)
    out['events'].append(['dsweep', kern, T, d['lo'], d['hi'], d['extra']])
    out['steps'] = len(sizes)
    out['nontrivial'] = ['dsweep', kern, T, d['lo']]
    return out


def run(case):
    import asdf
    from e2_world import world as W
    from e2_world import catalog as C
    from simcore import boot
    out = new_outcome()
    if 'dsweep' in case:
        return _decoder_sweep(case, out)
    boot.register_asdf_extension()
    from abacusnbody.data.read_abacus import read_asdf
    kind, hdr, knobs = case['kind'], case['header'], case['knobs']
    box, vz, ppd = hdr['BoxSize'], hdr['VelZSpace_to_kms'], int(round(hdr['ppd']))   # particles per dimension is an integer
    serials = case['serials']
    rv, packed = W.particle_arrays(serials)
    data = {}
    truth = {}
    if kind in ('rvint', 'two'):
        data['rvint'] = rv
        truth['pos'], truth['vel'] = W.decode_rvint(rv, box)
    if kind == 'pack9':
        p9, ppos, pvel = build_pack9(case['recs'], box, vz)
        data['pack9'] = p9
        truth['pos'], truth['vel'] = ppos, pvel
    if kind in ('packedpid', 'two'):
        data['packedpid'] = packed
    if kind == 'pid':
        data['pid'] = packed
    if kind == 'none':
        data['something_else'] = np.arange(len(serials), dtype=np.float32)
    if kind in ('packedpid', 'pid'):
        truth.update(W.decode_pid(packed, box, ppd))
        truth['aux'] = packed
    nrows = len(truth['pos']) if 'pos' in truth else len(serials)
    site = 'read_asdf'
    with C.scratch() as root:
        fn = os.path.join(root, 'particles.asdf')
        af = asdf.AsdfFile({'data': data, 'header': copy.deepcopy(hdr)})
        kw = {}
        if knobs.get('compression') == 'blsc':
            kw = {'all_array_compression': 'blsc', 'compression_kwargs': {'compression_block_size': knobs['cbs']}}
        af.write_to(fn, **kw)
        # ---- files with several or none of the known raw columns
        if kind in ('two', 'none'):
            try:
                with C.environment(knobs, out['faults']):
                    t = read_asdf(fn, verbose=False)
                violation(out, 'ambiguous-file-accepted', site, 'kind=%s returned columns %s' % (kind, t.colnames))
            except ValueError:
                bump(out['probes'], 'ambiguous-or-unknown-rejected')
            except Exception as e:
                violation(out, 'raises:' + type(e).__name__, site, repr(e)[:300])
            if kind == 'two' and not out['violations']:
                try:
                    with C.environment(knobs):
                        t = read_asdf(fn, colname='rvint', load=['pos'], verbose=False)
                    if t.colnames != ['pos'] or len(t) != len(serials):
                        violation(out, 'wrong-columns', site, 'explicit colname: %s' % t.colnames)
                except Exception as e:
                    violation(out, 'raises:' + type(e).__name__, site + '(colname)', repr(e)[:300])
            return out
        if case.get('failed_call_before'):
            # history: an earlier request on the same file failed (a raw column that is not there)
            for bad in ({'colname': 'no_such_raw_column'}, {'load': ['no_such_output_column']}):
                try:
                    with C.environment(knobs):
                        read_asdf(fn, verbose=False, **bad)
                except Exception:
                    pass
            bump(out['faults'], 'failed-call-before')
        results = []
        for i, req in enumerate(case['requests']):
            kwargs = {'dtype': np.float32 if req['dtype'] == 'f4' else np.float64, 'verbose': False}
            for k in ('load', 'load_pos', 'load_vel'):
                if k in req and req[k] is not None:
                    kwargs[k] = copy.deepcopy(req[k])
            if case['explicit_colname']:
                kwargs['colname'] = kind
            want = _expected_cols(kind, req)
            tabs = {}
            for poison in ('A', 'B'):
                try:
                    import warnings
                    with C.environment(dict(knobs, poison=poison), out['faults'] if (i == 0 and poison == 'A') else None), \
                            warnings.catch_warnings():
                        warnings.simplefilter('ignore')
                        t = read_asdf(fn, **copy.deepcopy(kwargs))
                except Exception as e:
                    violation(out, 'raises:' + type(e).__name__, site, {'request': req, 'error': repr(e)[:300]})
                    return out
                tabs[poison] = t
            t = tabs['A']
            if sorted(t.colnames) != sorted(want):
                violation(out, 'wrong-columns', site, {'request': req, 'got': t.colnames, 'expected': want})
                return out
            if want and len(t) != nrows:
                violation(out, 'wrong-row-count', site, {'got': len(t), 'expected': nrows, 'records_in_file': len(next(iter(data.values())))})
                return out
            for c in t.colnames:
                a, b = np.asarray(t[c]), np.asarray(tabs['B'][c])
                if a.tobytes() != b.tobytes():
                    violation(out, 'depends-on-uninitialised-memory', site, {'column': c, 'request': req})
                    return out
                got = a.astype(np.float64) if a.dtype.kind in 'fiub' else a
                exp = np.asarray(truth[c], dtype=np.float64) if c != 'aux' else None
                if c == 'aux':
                    ok = np.array_equal(a.astype(np.uint64), truth['aux'])
                elif c == 'pos':
                    q = box / 1e6 if kind == 'rvint' else 0.0005 * box / 3
                    ok = got.shape == exp.shape and bool((np.abs(got - exp) <= 0.5 * q + 4e-7 * box).all())
                elif c == 'vel':
                    ok = got.shape == exp.shape and bool((np.abs(got - exp) <= 2e-6 * np.abs(exp) + 1e-3).all())
                elif c in ('lagr_pos',):
                    ok = got.shape == exp.shape and bool((np.abs(got - exp) <= 4e-7 * (np.abs(exp) + box)).all())
                elif c == 'density':
                    ok = got.shape == exp.shape and bool(np.allclose(got, exp, rtol=1e-6))
                else:
                    ok = got.shape == exp.shape and bool(np.array_equal(got, exp))
                if not ok:
                    violation(out, 'wrong-values', site, {'column': c, 'request': req, 'kind': kind})
                    return out
            missing = {k: v for k, v in hdr.items() if t.meta.get(k) != v}
            if missing:
                violation(out, 'meta-not-header', site, {'missing_or_changed': sorted(missing)})
                return out
            results.append((req, t))
        # column values independent of co-requested columns
        for i in range(len(results)):
            for j in range(i + 1, len(results)):
                (ra, ta), (rb, tb) = results[i], results[j]
                if ra['dtype'] != rb['dtype']:
                    continue
                for c in set(ta.colnames) & set(tb.colnames):
                    if np.asarray(ta[c]).tobytes() != np.asarray(tb[c]).tobytes():
                        violation(out, 'column-depends-on-request', site, {'column': c, 'a': ra, 'b': rb})
                        return out
        # storage fault after the reads: the same file (same inode) is overwritten in place; a returned table holds the
        # values decoded when it was read and must not follow the storage
        if results:
            before = [{c: np.asarray(t[c]).tobytes() for c in t.colnames} for _, t in results]
            with open(fn, 'r+b') as fh:
                blob = fh.read()
                fh.seek(0)
                fh.write(bytes(255 - x for x in blob) if len(blob) < (1 << 16) else (np.frombuffer(blob, dtype=np.uint8) ^ 0xFF).tobytes())
                fh.flush()
                os.fsync(fh.fileno())
            bump(out['faults'], 'file-overwritten-in-place-after-read')
            for (req, t), snap in zip(results, before):
                for c in t.colnames:
                    if np.asarray(t[c]).tobytes() != snap[c]:
                        violation(out, 'table-aliases-storage', site, {'column': c, 'request': req, 'kind': kind,
                                                                       'fault': 'file overwritten in place after read_asdf returned'})
                        return out
    if kind == 'pack9' and len(case['recs']) > nrows:
        bump(out['probes'], 'pack9-fewer-rows-than-records')
    if nrows == 0:
        bump(out['probes'], 'empty-file')
    if hdr.get('OutputType') == 'LightCone':
        bump(out['probes'], 'lightcone-header')
    out['events'].append([kind, nrows, [sorted(_expected_cols(kind, r)) for r in case['requests']]])
    out['steps'] = len(case['requests']) * 2
    if nrows >= 1 and len({tuple(sorted(_expected_cols(kind, r))) for r in case['requests']}) >= 2:
        out['nontrivial'] = [kind, min(nrows, 40) // 10, sorted({tuple(sorted(_expected_cols(kind, r))) for r in case['requests']}),
                             sorted({r['dtype'] for r in case['requests']}), hdr['OutputType'], knobs['io_block']]
    return out


def shrink(case):
    if 'dsweep' in case:
        d = case['dsweep']
        if d['hi'] - d['lo'] > 1:
            mid = (d['lo'] + d['hi']) // 2
            yield {'dsweep': dict(d, hi=mid, extra=0)}
            yield {'dsweep': dict(d, lo=mid, extra=0)}
        elif d['extra']:
            yield {'dsweep': dict(d, extra=0)}
        return
    c = copy.deepcopy(case)
    if len(case['requests']) > 1:
        for i in range(len(case['requests'])):
            yield dict(c, requests=case['requests'][:i] + case['requests'][i + 1:])
    if case['kind'] != 'pack9' and len(case['serials']) > 1:
        yield dict(c, serials=case['serials'][:len(case['serials']) // 2])
        yield dict(c, serials=case['serials'][1:])
    if case['kind'] == 'pack9' and len(case['recs']) > 2:
        for i in range(1, len(case['recs'])):
            recs = case['recs'][:i] + case['recs'][i + 1:]
            yield dict(c, recs=recs, serials=[r[1] for r in recs if r[0] == 'P'])
    k = case['knobs']
    for key, val in (('compression', None), ('io_block', None)):
        if k[key] != val:
            yield dict(c, knobs=dict(k, **{key: val}))
    if case['explicit_colname']:
        yield dict(c, explicit_colname=False)
