"""C01 -- each halo row indexes exactly its own subsample particles.

Engine E2: a seeded world (ground truth with uniquely tagged particles, L0 gap
records, zero-particle / cleaned-away halos, merged ranges) is written by the
stub writer and read back by the repository's loader under legal environment
faults (chunk size, compression framing, shuffled listings, junk files, path
spelling, poisoned allocator).  No threads are involved; what the simulator
owns is storage and the allocator.
"""
import copy

import numpy as np

from simcore.core import new_outcome, violation, bump

PID = 'C01'
QUICK_RUNS = 400
QUICK_SECONDS = 150
THOROUGH_SECONDS = 900
CASE_TIMEOUT = 300
SHRINK_SECONDS = 120
LEVEL = 'exploration'
RULE = ('case = (world: 1-4 superslabs with non-contiguous indices, 0-6 halos each, 0-4 particles per halo and subsample, '
        'L0 gaps, zero-particle and cleaned-away halos, merged ranges; loader options: cleaned, A/B/both, pos/vel/pid/rv '
        'subsets, unpack_bits False/True/subset, passthrough, path spelling; knobs: io_block_size, blsc compression, '
        'shuffled listing, junk files, poison). non-trivial = >= 2 halo rows and >= 1 particle loaded; distinct = distinct '
        '(slabs, rows bucket, cleaned, AB, columns, unpack_bits, passthrough, path kind, io_block, compression, '
        'has-gap, has-cleaned-away, has-merged)')
COMPONENTS = {'real': ['data/compaso_halo_catalog.py (loader, index arithmetic, compiled zipper kernels), util.cumsum, '
                       'data/bitpacked.py decoders, data/asdf.py framing; asdf, astropy real'],
              'stub': ['Abacus simulation output (stub writer driven by the world model)', 'blosc codec']}
ASSUMPTIONS = ['cleaned-away halos carry no merged particles (as in real data)',
               'reference decoders written from the documented bit layout; pos within half a quantum, vel within 1e-3 quantum']


def gen(rng, tier):
    from e2_world import world as W
    from e2_world import catalog as C
    lc = rng.random() < 0.12
    bigspec = None
    if rng.random() < 0.02:
        # a large catalogue (carried as its generator call): "round" row totals and their neighbours
        T = 16
        tot = rng.choice([4096, 4097, 4095, 8192, 8193, 4096 + T * rng.randrange(1, 20), 4096 + T * rng.randrange(1, 20) + 1])
        first = rng.choice([tot, tot - 1, tot // 2, rng.randrange(1, tot)])
        counts = [first] + ([tot - first] if tot - first else [])
        bigspec = {'gen': {'seed': rng.randrange(1 << 30), 'kwargs': {'halo_counts': counts, 'max_parts': 1,
                                                                      'want_clean': rng.random() < 0.5}}}
        lc = False
    big = tier == 'thorough' and rng.random() < 0.5
    world = W.gen_world(rng, lc=lc, max_slabs=6 if big else 4, max_halos=12 if big else 6, max_parts=8 if big else 4)
    if bigspec:
        world = W.materialize(bigspec)
    inds = [s['index'] for s in world['slabs']]
    kind = rng.choice(['zdir', 'zdir', 'halo_info', 'file', 'list', 'list'])
    if bigspec:
        kind = rng.choice(['zdir', 'list'])
    order = list(inds)
    if kind == 'file':
        order = [rng.choice(inds)]
    elif kind == 'list':
        k = rng.randrange(1, len(inds) + 1)
        order = rng.sample(inds, k)
    passthrough = rng.random() < 0.15 and not lc
    ab = rng.choice([['A'], ['B'], ['A', 'B'], ['A', 'B']])
    if passthrough:
        cols = rng.choice([['rvint', 'packedpid'], ['rvint'], ['packedpid']])
        sub = {k: True for k in ab + cols}
    else:
        cols = rng.choice([['pos', 'vel', 'pid'], ['pos'], ['vel'], ['pid'], ['rv'], ['rv', 'pid'], ['pos', 'pid'], []])
        sub = {k: True for k in ab + cols}
        if rng.random() < 0.15:
            sub = True
            ab = ['A', 'B']
    unpack = rng.choice([False, False, True, ['pid', 'tagged'], ['lagr_pos', 'lagr_idx', 'density'], ['pid', 'lagr_idx'],
                         'density', 'pid'])
    if lc:
        ab = ['A']
        cols = rng.choice([['pos', 'vel', 'pid'], ['pid'], ['pos'], ['rv']])
        sub = rng.choice([{k: True for k in ['A'] + cols}, {k: True for k in ['A', 'B'] + cols}, True])
    if bigspec:
        cleaned_flag = world['cleaned']
        world = bigspec
        world['cleaned_hint'] = cleaned_flag
    return {'world': world, 'knobs': C.gen_knobs(rng),
            'path': {'kind': kind, 'order': order, 'slash': rng.random() < 0.3, 'as_path': rng.random() < 0.5},
            'cleaned': bool(world.get('cleaned', world.get('cleaned_hint')) and rng.random() < 0.75) or lc, 'subsamples': sub, 'AB': ab,
            'unpack_bits': unpack, 'passthrough': passthrough,
            'fields': 'all' if passthrough else rng.choice(['DEFAULT_FIELDS', 'all', 'all']),
            'explicit_cleandir': rng.random() < 0.25, 'zdir_as_path': rng.random() < 0.5,
            'sub_order': rng.randrange(1 << 20) if rng.random() < 0.5 else None,
            'drop_slab': rng.randrange(8) if (rng.random() < 0.15 and not bigspec) else None}


def run(case):
    from e2_world import world as W
    from e2_world import catalog as C
    out = new_outcome()
    world = W.materialize(case['world'])
    knobs = case['knobs']
    if 'gen' in case['world']:
        knobs = dict(knobs, prelude_seed=None, compression=None if knobs.get('cbs', 0) < 1024 else knobs.get('compression'))
        bump(out['probes'], 'large-catalogue')
    with C.scratch() as root:
        gd, written = W.write_world(world, root, knobs)
        C.prelude(world, knobs, root, out['faults'])
        C.failed_loads_before(gd, knobs, out['faults'])
        before = C.tree_digest(root)
        arg, order = C.path_argument(world, gd, case['path'])
        lc = bool(world.get('lc'))
        keep = None
        kw = dict(cleaned=case['cleaned'], subsamples=C.subsamples_argument(case), unpack_bits=case['unpack_bits'],
                  passthrough=case['passthrough'], fields=case['fields'])
        if case.get('drop_slab') is not None and not lc and len(order) >= 2:
            # a filter that keeps nothing from one whole superslab (a spatial cut): every other row still indexes
            # its own particles
            drop = order[case['drop_slab'] % len(order)]
            keep = {s['index']: [s['index'] != drop] * len(s['halos']) for s in W._slabs(world, order)}
            bad_ids = np.array([h['raw']['id'] for s in W._slabs(world, [drop]) for h in s['halos']], dtype=np.uint64)
            kw['filter_func'] = lambda h: ~np.isin(np.asarray(h['id']).astype(np.uint64), bad_ids)
            bump(out['probes'], 'filter-empties-one-superslab')
        rows = W.expected_particles(world, order, case['cleaned'] and not lc, case['AB'], keep=keep)
        if case.get('explicit_cleandir') and case['cleaned'] and not lc:
            import os
            chi = W.clean_dirs(world, root)[1]
            cd = chi
            while os.path.basename(cd) != 'cleaning':
                cd = os.path.dirname(cd)
            import pathlib as _pl
            kw['cleandir'] = _pl.Path(cd)     # (a plain str crashes in _setup_file_paths: outside C01, noted in DESIGN 6)
            bump(out['probes'], 'explicit-cleandir')
        if case.get('zdir_as_path') and isinstance(arg, str):
            import pathlib
            arg = pathlib.Path(arg)
        tabs = {}
        for poison in ('A', 'B'):
            k2 = dict(knobs, poison=poison)
            try:
                with C.environment(k2, out['faults'] if poison == 'A' else None):
                    cat = C.load(arg, **{k_: (v_ if k_ == 'filter_func' else copy.deepcopy(v_)) for k_, v_ in kw.items()})
            except Exception as e:
                violation(out, 'raises:' + type(e).__name__, 'CompaSOHaloCatalog', repr(e)[:400])
                return out
            if poison == 'A':
                bad = C.check_lc_subsamples(cat, world) if lc else C.check_subsamples(cat, world, rows, case['AB'])
                if bad:
                    violation(out, bad[0], 'CompaSOHaloCatalog.subsamples', bad[1])
                    return out
            tabs[poison] = (C.table_bytes(cat.halos), C.table_bytes(cat.subsamples))
            del cat
        if tabs['A'] != tabs['B']:
            cols = [c for c in tabs['A'][0] if tabs['A'][0][c] != tabs['B'][0].get(c)] + \
                   [c for c in tabs['A'][1] if tabs['A'][1][c] != tabs['B'][1].get(c)]
            violation(out, 'depends-on-uninitialised-memory', 'CompaSOHaloCatalog', {'columns': cols[:6]})
            return out
        if C.tree_digest(root) != before:
            violation(out, 'files-modified', 'CompaSOHaloCatalog', 'catalogue files changed during the load')
            return out
    npart = sum(len(r[AB]) for r in rows for AB in case['AB'])
    hs = [h for s in world['slabs'] if s['index'] in order for h in s['halos']]
    flags = [any(h['gapA'] or h['gapB'] for h in hs), any(h['clean']['N_total'] == 0 for h in hs),
             any(h['clean']['mergeA'] or h['clean']['mergeB'] for h in hs), any(not h['A'] and not h['B'] for h in hs)]
    for name, f in zip(('L0-gap', 'cleaned-away-halo', 'merged-range', 'zero-particle-halo'), flags):
        if f:
            bump(out['probes'], name)
    if len(hs) == 0:
        bump(out['probes'], 'empty-catalogue')
    bump(out['probes'], 'path:' + case['path']['kind'])
    if lc:
        bump(out['probes'], 'light-cone-layout')
    out['events'].append(['load', order, len(rows), npart, case['cleaned'], case['AB']])
    out['steps'] = len(written)
    if len(rows) >= 2 and npart >= 1:
        sub = case['subsamples']
        out['nontrivial'] = [len(order), min(len(rows), 12) // 3, case['cleaned'], case['AB'],
                             sorted(k for k in sub if k not in 'AB') if isinstance(sub, dict) else 'all',
                             case['unpack_bits'], case['passthrough'], case['path']['kind'], knobs['io_block'],
                             knobs['compression'], flags, lc]
    return out


def shrink(case):
    c = copy.deepcopy(case)
    w = case['world']
    if 'gen' in w:
        w = {'slabs': []}      # generator-call worlds are shrunk through their options only
    # drop a slab
    if len(w['slabs']) > 1:
        for i, s in enumerate(w['slabs']):
            w2 = copy.deepcopy(w)
            idx = w2['slabs'][i]['index']
            del w2['slabs'][i]
            p2 = dict(case['path'], order=[x for x in case['path']['order'] if x != idx] or [w2['slabs'][0]['index']])
            yield dict(c, world=w2, path=p2)
    # drop a halo
    for i, s in enumerate(w['slabs']):
        for j in range(len(s['halos'])):
            w2 = copy.deepcopy(w)
            del w2['slabs'][i]['halos'][j]
            yield dict(c, world=w2)
    # drop particles / gaps
    for i, s in enumerate(w['slabs']):
        for j, h in enumerate(s['halos']):
            for key in ('A', 'B', 'gapA', 'gapB'):
                if h[key]:
                    w2 = copy.deepcopy(w)
                    w2['slabs'][i]['halos'][j][key] = h[key][:-1]
                    yield dict(c, world=w2)
            for key in ('mergeA', 'mergeB', 'mgapA', 'mgapB'):
                if h['clean'][key]:
                    w2 = copy.deepcopy(w)
                    w2['slabs'][i]['halos'][j]['clean'][key] = h['clean'][key][:-1]
                    yield dict(c, world=w2)
    k = case['knobs']
    for key, val in (('compression', None), ('io_block', None), ('junk', False), ('shuffle_glob', False)):
        if k[key] != val:
            yield dict(c, knobs=dict(k, **{key: val}))
    if case['unpack_bits'] is not False:
        yield dict(c, unpack_bits=False)
    if case['path']['kind'] != 'zdir':
        yield dict(c, path=dict(case['path'], kind='zdir', order=[s['index'] for s in w['slabs']]))
    if case['cleaned']:
        yield dict(c, cleaned=False)
    if len(case['AB']) == 2 and isinstance(case['subsamples'], dict):
        for AB in 'AB':
            yield dict(c, AB=[AB], subsamples={k: v for k, v in case['subsamples'].items() if k != ('B' if AB == 'A' else 'A')})
