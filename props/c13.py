"""C13 -- the power-spectrum estimate has the symmetries of the estimator.

The plain-Python driver ``calc_power`` runs as it is on simulated kernels (TSC
partition/scatter, parallel normalise, interlacing phase shift, per-thread
binning) with real scipy.fft, so thread-count / schedule independence of the
whole pipeline is decided by the scheduler.  Permutation, whole-cell translation
and cross = auto are input symmetries: they are evaluated as additional oracles
on the same runs; the simulator adds nothing to them beyond running them under
varied schedules.
"""
import numpy as np

from simcore.core import new_outcome, violation, bump

PID = 'C13'
QUICK_RUNS = 128
QUICK_SECONDS = 170
THOROUGH_SECONDS = 900
CASE_TIMEOUT = 600
SHRINK_SECONDS = 120
LEVEL = 'exploration'
RULE = ('case = (particles on a fine dyadic lattice so that whole-cell translations are exact, mesh 4..16, TSC/CIC, '
        'compensated x interlaced, linear/log k bins, mu bins, multipoles, field dtype, two thread counts, schedule '
        'config). Per case five calc_power runs (base, permuted, translated, other thread count, cross=auto) plus one '
        'with different particles for the particle-independent columns. non-trivial = >= 2 particles and the painted '
        'regions ran on >= 2 simulated threads; distinct = distinct (mesh, paste, compensated, interlaced, logk, n mu, '
        'poles, dtype, thread pair, policy, strategy)')
COMPONENTS = {'real': ['analysis/power_spectrum.py calc_power driver (as is), analysis/tsc.py, analysis/cic.py; parallel '
                       'kernels as cooperative generators; scipy.fft real', 'compiled pipeline at nthread=1 for a tenth of the cases'],
              'stub': ['numba thread pool and scheduler']}
ASSUMPTIONS = ['tolerance 2e-5*max|P| (float32 rounding: binning, positions and the compensation window are float32 even '
               'for float64 fields; a single lost deposit is two orders of magnitude above it, DESIGN.md C13 calibration)']


def gen(rng, tier):
    from e1_threads.harness import gen_sched
    nmesh = rng.choice([4, 5, 6, 7, 8, 8, 9, 12, 12, 16] + ([20, 24] if tier == 'thorough' else []))
    L = rng.choice([1.0, 16.0, 64.0, 1024.0])
    N = rng.choice([2, 5, 20, rng.randrange(2, 80)] + ([rng.randrange(80, 300)] if tier == 'thorough' else []))
    Q = 1 << 12
    pos = [[rng.randrange(Q), rng.randrange(Q), rng.randrange(Q)] for _ in range(N)]
    pos_other = [[rng.randrange(Q), rng.randrange(Q), rng.randrange(Q)] for _ in range(max(2, N // 2))]
    weights = None if rng.random() < 0.5 else [rng.choice([1.0, 0.5, 2.0, 1.25]) for _ in range(N)]
    perm = list(range(N))
    rng.shuffle(perm)
    if rng.random() < 0.3:
        # coordinates exactly on the lower box face (and on cell boundaries)
        for p in pos:
            for ax in range(3):
                if rng.random() < 0.25:
                    p[ax] = rng.choice([0, 0, Q // 2, Q - 1])
    if rng.random() < 0.35:
        # one of the two orders is sorted along an axis (what a catalogue read slab by slab looks like): the relation
        # "permuting the particles changes nothing" includes the permutation that sorts them
        ax = rng.randrange(3)
        order = sorted(range(N), key=lambda i: (pos[i][ax], i))
        if rng.random() < 0.5:
            perm = order
        else:
            pos = [pos[i] for i in order]
            weights = None if weights is None else [weights[i] for i in order]
    return {'nmesh': nmesh, 'L': L, 'Q': Q, 'pos': pos, 'pos_other': pos_other, 'weights': weights, 'perm': perm,
            'shift': [rng.randrange(0, nmesh), rng.randrange(0, nmesh), rng.randrange(0, nmesh)],
            'paste': rng.choice(['TSC', 'TSC', 'CIC']), 'compensated': rng.random() < 0.5,
            'interlaced': rng.random() < 0.5, 'logk': rng.random() < 0.3,
            'kbins': rng.choice([None, 3, 5, 'array']), 'mubins': rng.choice([None, 1, 2, 4, 'array']),
            'k_max_frac': rng.choice([None, None, 0.6, 1.5]),
            'poles': rng.choice([None, [0], [0, 2], [0, 2, 4]]), 'dtype': rng.choice(['f4', 'f4', 'f8']),
            'T1': rng.choice([1, 2, 3, 5, 16]), 'T2': rng.choice([1, 2, 3, 5, 16]),
            'sched': gen_sched(rng), 'compiled': rng.random() < 0.1, 'pos_dtype': rng.choice(['f4', 'f4', 'f8']),
            'failed_call_before': rng.random() < 0.2}


def _positions(case, which='pos', shift=None, dtype=np.float32):
    q = np.array(case[which], dtype=np.int64).reshape(-1, 3)
    if shift is not None:
        # whole cells are only dyadic lattice points when nmesh divides Q; otherwise shift by the
        # exact float value of m*h and wrap -- still exact on the lattice for power-of-two meshes
        pass
    x = q.astype(np.float64) * (case['L'] / case['Q'])
    if shift is not None:
        h = case['L'] / case['nmesh']
        x = np.mod(x + np.array(shift, dtype=np.float64) * h, case['L'])
    return x.astype(dtype)


def _call(ps, case, pos, w, nthread, pos2=None, w2=None, alias=False):
    dt = np.float32 if case['dtype'] == 'f4' else np.float64
    kny = np.pi * case['nmesh'] / case['L']
    kbins, mubins = case['kbins'], case['mubins']
    if kbins == 'array':
        kbins = np.array([0.0, 0.21, 0.5, 0.77, 1.0]) * kny
    if mubins == 'array':
        mubins = np.array([0.0, 0.3, 0.55, 1.0])
    kmax = None if case.get('k_max_frac') is None else case['k_max_frac'] * kny
    cp = (lambda a: a) if alias else (lambda a: a.copy())
    return ps.calc_power(cp(pos), case['L'], kbins=kbins, mubins=mubins, k_max=kmax, logk=case['logk'],
                         paste=case['paste'], nmesh=case['nmesh'], compensated=case['compensated'],
                         interlaced=case['interlaced'], w=None if w is None else cp(w),
                         pos2=None if pos2 is None else cp(pos2), w2=None if w2 is None else cp(w2),
                         poles=case['poles'], nthread=nthread, dtype=dt)


def _alias_call(ps, case, pos, w, out):
    """The same array object as first and second field (what `calc_power(pos, L, pos2=pos)` does); the
    caller's in-range positions must also come back unmodified."""
    p = pos.copy()
    keep = p.copy()
    ww = None if w is None else w.copy()
    res = _call(ps, case, p, ww, case['T1'], pos2=p, w2=ww, alias=True)
    if not np.array_equal(np.asarray(p), keep):
        violation(out, 'input-positions-modified', 'calc_power[sim]', {'max_shift': float(np.abs(np.asarray(p) - keep).max())})
    return res


FLOAT_COLS = ('power', 'poles', 'k_avg')
FIXED_COLS = ('N_mode', 'N_mode_poles', 'k_min', 'k_max', 'k_mid', 'mu_min', 'mu_max', 'mu_mid')


def _table(t):
    return {c: np.array(np.asarray(t[c]), copy=True) for c in t.colnames}


def _compare(out, relation, site, base, other, tol_rel):
    if set(base) != set(other):
        violation(out, 'columns-differ:' + relation, site, sorted(set(base) ^ set(other)))
        return
    for c in base:
        a, b = np.asarray(base[c]), np.asarray(other[c])
        if a.shape != b.shape:
            violation(out, 'shape-differs:' + relation, site, {'column': c, 'a': list(a.shape), 'b': list(b.shape)})
            return
        if c in FIXED_COLS:
            if not np.array_equal(a, b):
                violation(out, 'fixed-column-differs:' + relation, site, {'column': c})
                return
        elif c in FLOAT_COLS:
            scale = max(float(np.nanmax(np.abs(a))) if a.size else 0.0, 1e-300)
            d = np.abs(a.astype(np.float64) - b.astype(np.float64))
            nanmis = np.isnan(a) != np.isnan(b)
            d = np.where(np.isnan(d), 0.0, d)
            if nanmis.any() or (d > tol_rel * scale).any():
                violation(out, 'not-invariant:' + relation, site,
                          {'column': c, 'max_rel_diff': float(d.max() / scale), 'tol': tol_rel})
                return


def sweep(tier):
    """Complete (mesh size, thread count) sweep of the compiled estimator: a split of the mesh between threads computed
    from (nmesh, nthread) goes wrong only for particular pairs (e.g. 13 threads on 30 cells, 7 on 61)."""
    top = 96 if tier == 'thorough' else 64
    for lo in range(2, top + 1, 32):
        yield {'nt_sweep': [lo, min(lo + 32, top + 1)]}
    # particle counts beyond 2^20 and not a multiple of it (where chunked / blocked paths of the painting live)
    yield {'big_n': (1 << 20) + 300007, 'nmesh': 32}


def _nt_sweep(case, out):
    from abacusnbody.analysis import power_spectrum as rps
    lo, hi = case['nt_sweep']
    L = 100.0
    g = np.random.default_rng(13)
    pos = (g.random((300, 3)) * L).astype(np.float32)
    site = 'calc_power[compiled]'
    for nmesh in range(lo, hi):
        for k, (paste, interlaced) in enumerate((('TSC', False), ('CIC', True))):
            if k == 1 and nmesh % 3:
                continue
            base = None
            for T in range(1, 17):
                try:
                    t = _table(rps.calc_power(pos.copy(), L, kbins=4, mubins=2, paste=paste, nmesh=nmesh, compensated=True,
                                              interlaced=interlaced, poles=[0, 2], nthread=T, dtype=np.float32))
                except Exception as e:
                    violation(out, 'raises:' + type(e).__name__, site, {'nmesh': nmesh, 'nthread': T, 'error': repr(e)[:300]})
                    return out
                if T == 1:
                    base = t
                    continue
                _compare(out, 'thread-count', site, base, t, 2e-5)
                if out['violations']:
                    out['violations'][-1]['detail'] = dict(out['violations'][-1]['detail'], nmesh=nmesh, nthread=T, paste=paste)
                    return out
    bump(out['probes'], 'compiled-(nmesh,threads)-sweep', (hi - lo) * 16)
    bump(out['faults'], 'real-thread-counts-1..16', hi - lo)
    out['events'].append(['nt_sweep', lo, hi])
    out['steps'] = (hi - lo) * 16
    out['nontrivial'] = ['nt_sweep', lo]
    return out


def _big_n(case, out):
    from abacusnbody.analysis import power_spectrum as rps
    N, nmesh = case['big_n'], case['nmesh']
    L = 100.0
    g = np.random.default_rng(131)
    pos = (g.random((N, 3)) * L).astype(np.float32)
    perm = g.permutation(N)
    site = 'calc_power[compiled]'
    for paste, interlaced in (('CIC', True), ('TSC', False), ('TSC', True)):
        try:
            kw = dict(kbins=4, mubins=2, paste=paste, nmesh=nmesh, compensated=True, interlaced=interlaced, poles=[0, 2],
                      nthread=4, dtype=np.float32)
            a = _table(rps.calc_power(pos.copy(), L, **kw))
            b = _table(rps.calc_power(pos[perm], L, **kw))
        except Exception as e:
            violation(out, 'raises:' + type(e).__name__, site, {'N': N, 'paste': paste, 'error': repr(e)[:300]})
            return out
        _compare(out, 'permutation', site, a, b, 2e-5)
        if out['violations']:
            out['violations'][-1]['detail'] = dict(out['violations'][-1]['detail'], N=N, paste=paste, interlaced=interlaced)
            return out
    bump(out['probes'], 'more-than-2^20-particles')
    out['events'].append(['big_n', N])
    out['steps'] = 6
    out['nontrivial'] = ['big_n', N]
    return out


def run(case):
    if case.get('nt_sweep'):
        return _nt_sweep(case, new_outcome())
    if case.get('big_n'):
        return _big_n(case, new_outcome())
    from abx_sim.analysis import power_spectrum as ps
    from e1_threads import harness as H
    from e1_threads.sched import SIM
    out = new_outcome()
    s = case['sched']
    pdt = np.float64 if case.get('pos_dtype') == 'f8' else np.float32
    pos = _positions(case, dtype=pdt)
    w = None if case['weights'] is None else np.array(case['weights'], dtype=np.float32)
    perm = np.array(case['perm'], dtype=np.int64)
    tol = 2e-5   # also for float64 fields: binning, positions and the window stay float32
    site = 'calc_power[sim]'
    if case.get('failed_call_before'):
        # history: a call that is rejected / dies midway (unknown mass-assignment scheme, another thread count) first
        H.run(lambda: ps.calc_power(pos.copy(), case['L'], nmesh=case['nmesh'], paste='no-such-scheme',
                                    nthread=max(1, 17 - case['T1'])), {'policy': 'static', 'strategy': 'serial'})
    steps = 0
    info = {}

    def go(label, fn, sched_cfg):
        nonlocal steps
        res, exc, summ = H.run(fn, sched_cfg)
        steps += summ['steps']
        info[label] = summ
        if SIM.oob_events:
            ev = SIM.oob_events[0]
            violation(out, 'oob', (ev['region'] or 'calc_power').split('#')[0], ev)
            return None
        if exc is not None:
            violation(out, 'raises:' + type(exc).__name__, site + ':' + label, repr(exc)[:300])
            return None
        conflicts, _ = SIM.conflicts(limit=1)
        for c in conflicts:
            violation(out, 'conflict', c['region'].split('#')[0], {'where': c['where'], 'threads': c['threads'], 'run': label})
            return None
        return _table(res)

    base = go('base', lambda: _call(ps, case, pos, w, case['T1']), s)
    if base is None:
        return out
    runs = {
        'permutation': lambda: _call(ps, case, pos[perm], None if w is None else w[perm], case['T1']),
        'translation': lambda: _call(ps, case, _positions(case, shift=case['shift'], dtype=pdt), w, case['T1']),
        'thread-count': lambda: _call(ps, case, pos, w, case['T2']),
        'cross=auto': lambda: _call(ps, case, pos, w, case['T1'], pos2=pos, w2=w),
        'cross=auto(same-array-object)': lambda: _alias_call(ps, case, pos, w, out),
    }
    for k, (label, fn) in enumerate(runs.items()):
        s2 = dict(s, seed=s.get('seed', 0) + k + 1)
        t = go(label, fn, s2)
        if t is None:
            return out
        _compare(out, label, site, base, t, tol)
        if out['violations']:
            return out
    # particle-independent columns
    other = go('other-particles', lambda: _call(ps, case, _positions(case, 'pos_other', dtype=pdt), None, case['T1']), s)
    if other is None:
        return out
    for c in FIXED_COLS:
        if c in base and not np.array_equal(base[c], other[c]):
            violation(out, 'depends-on-particles', site, {'column': c})
            return out
    out['steps'] = steps
    bump(out['faults'], 'policy=' + s.get('policy', 'static'))
    bump(out['faults'], 'strategy=' + s.get('strategy', 'serial'))
    bump(out['faults'], 'context-switches', sum(v['switches'] for v in info.values()))
    bump(out['probes'], 'paste=' + case['paste'])
    bump(out['probes'], 'interlaced' if case['interlaced'] else 'not-interlaced')
    out['events'].append(['N_mode', np.asarray(base['N_mode']).ravel().tolist()[:12], case['nmesh'], case['T1'], case['T2']])
    if case.get('compiled'):
        _compiled(case, pos, w, perm, base, out, tol)
    multi = any(r[2] >= 2 and r[1] >= 2 for v in info.values() for r in v['regions'])
    if len(pos) >= 2 and multi:
        out['nontrivial'] = [case['nmesh'], case['paste'], case['compensated'], case['interlaced'], case['logk'],
                             case['mubins'], case['poles'], case['dtype'], sorted([case['T1'], case['T2']]),
                             s.get('policy'), s.get('strategy')]
    return out


def _compiled(case, pos, w, perm, base, out, tol):
    from abacusnbody.analysis import power_spectrum as rps
    site = 'calc_power[compiled,nthread=1]'
    try:
        a = _table(_call(rps, case, pos, w, 1))
        b = _table(_call(rps, case, pos[perm], None if w is None else w[perm], 1))
        c = _table(_call(rps, case, pos, w, 1, pos2=pos, w2=w))
    except Exception as e:
        violation(out, 'raises:' + type(e).__name__, site, repr(e)[:300])
        return
    bump(out['probes'], 'compiled-crosscheck')
    _compare(out, 'permutation', site, a, b, tol)
    _compare(out, 'cross=auto', site, a, c, tol)
    if not out['violations']:
        for col in FIXED_COLS:
            if col in a and not np.array_equal(a[col], base[col]):
                out['harness'] = 'HARNESS-MISMATCH: column %s differs between compiled and simulated pipelines' % col
                return
        for col in ('power',):
            sc = max(float(np.nanmax(np.abs(a[col]))), 1e-300)
            d = np.abs(np.nan_to_num(a[col].astype(np.float64)) - np.nan_to_num(np.asarray(base[col], dtype=np.float64))).max()
            if d > 20 * tol * sc:
                out['harness'] = 'HARNESS-MISMATCH: power differs between compiled and simulated pipelines by %g' % (d / sc)


def shrink(case):
    if case.get('big_n'):
        return
    if case.get('nt_sweep'):
        lo, hi = case['nt_sweep']
        if hi - lo > 1:
            mid = (lo + hi) // 2
            yield {'nt_sweep': [lo, mid]}
            yield {'nt_sweep': [mid, hi]}
        return
    c = dict(case)
    n = len(case['pos'])
    for k in (n // 2, 1):
        if k >= 1 and n > 2:
            for start in range(0, n, k):
                keep = case['pos'][:start] + case['pos'][start + k:]
                if len(keep) < 2:
                    continue
                w = None if case['weights'] is None else case['weights'][:start] + case['weights'][start + k:]
                yield dict(c, pos=keep, weights=w, perm=list(range(len(keep)))[::-1])
    if case['weights'] is not None:
        yield dict(c, weights=None)
    for key, val in (('interlaced', False), ('compensated', False), ('logk', False), ('poles', None), ('mubins', None),
                     ('kbins', None), ('compiled', False)):
        if case[key] != val:
            yield dict(c, **{key: val})
    if case['nmesh'] > 4:
        yield dict(c, nmesh=max(4, case['nmesh'] // 2), shift=[x % max(4, case['nmesh'] // 2) for x in case['shift']])
    if case['T1'] != 1:
        yield dict(c, T1=1)
    if case['T2'] != 2:
        yield dict(c, T2=2)
    if case['sched'].get('strategy') != 'serial':
        yield dict(c, sched=dict(case['sched'], strategy='serial'))
