"""Execution helpers shared by C09 / C10."""
import copy

import numpy as np

from . import hodcommon as HC

OCC_NAMES = ('n_cen_LRG', 'N_cen_ELG_v1', 'N_cen_QSO', 'n_sat_LRG_modified', 'N_sat_elg', 'N_sat_generic')


def occ_of(mod):
    return {n: getattr(getattr(mod, n), 'py_func', getattr(mod, n)) for n in OCC_NAMES}


def prepare(case):
    """Deep copy with the slice-edge randoms placed (pure function of the case
    and of the package's mean-occupation functions)."""
    from abx_sim.hod import GRAND_HOD as G
    c = copy.deepcopy(case)
    HC.place_edges(c, occ_of(G))
    return c


def tracer_order(c):
    """The insertion order of the tracer dictionary handed to the package is the caller's choice (replay files store
    dictionaries with sorted keys, so the order is its own field of the case)."""
    order = [t for t in (c.get('tracer_order') or []) if t in c['tracers']]
    return order + [t for t in c['tracers'] if t not in order]


def call(mod, c, Nthread, tracers=None, inputs=None):
    halo, part, params = HC.build_inputs(c) if inputs is None else inputs
    if tracers is None:
        tracers = {t: dict(c['tracers'][t]) for t in tracer_order(c)}
    res = mod.gen_gal_cat(halo, part, tracers, params, Nthread=Nthread, enable_ranks=c['enable_ranks'],
                          rsd=c['rsd'], nfw=False, write_to_disk=False, verbose=False)
    return res


def flatten(res):
    """{tracer: {col: ndarray, 'Ncent': int}} -> comparable plain structure."""
    out = {}
    for t, d in res.items():
        out[t] = {k: (int(v) if k == 'Ncent' else np.array(np.asarray(v), copy=True)) for k, v in d.items()}
    return out


def same_bits(a, b):
    """None if identical, else a description."""
    if set(a) != set(b):
        return 'tracer sets differ'
    for t in a:
        if set(a[t]) != set(b[t]):
            return '%s: column sets differ' % t
        for k in a[t]:
            x, y = a[t][k], b[t][k]
            if k == 'Ncent':
                if x != y:
                    return '%s: Ncent %d vs %d' % (t, x, y)
            elif x.shape != y.shape or x.dtype != y.dtype or x.tobytes() != y.tobytes():
                n = min(len(x), len(y))
                d = np.nonzero(~((x[:n] == y[:n]) | ((x[:n] != x[:n]) & (y[:n] != y[:n]))))[0]
                return '%s.%s differs (len %d vs %d, first differing row %s)' % (t, k, len(x), len(y), int(d[0]) if len(d) else n)
    return None
