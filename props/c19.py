"""C19 -- cumsum writes exactly the selected partial sums for every length.

Sim: thin but genuine.  The value part is a pure function and is simply
enumerated (lengths 0..8 x flags x offsets x dtype pairs: a finite space swept
completely and reported as such).  The clause "nothing outside the output
array is read or written" is a statement about the heap: it is decided by the
poisoned arena with canary guard zones (seam S3) under two fills, and by a
child process running the same calls under NUMBA_BOUNDSCHECK=1.
"""
import numpy as np

from simcore.core import new_outcome, violation, bump

PID = 'C19'
QUICK_RUNS = 300
QUICK_SECONDS = 120
THOROUGH_SECONDS = 600
CASE_TIMEOUT = 900
LEVEL = 'exploration'
EXHAUSTIVE = False
RULE = ('sweep (long inputs): lengths 2^k-1, 2^k, 2^k+1 for k=10..20 (21 thorough) and four odd lengths x flags x 3 dtype '
        'pairings x 1/3/16 numba threads (a third of the product, all of it at 65536/65537/2^20/2^20+1). '
        'sweep (complete): input length 0..8 x initial x final x offset in {0, 5} x 11 input/output dtype pairings (incl. '
        'uint32->uint64, list input for lengths >= 1) x output length correct / one short / one long; seeded: lengths up to '
        '10^4, random values and offsets. Each case runs the compiled kernel on a poisoned arena with canaries under two '
        'fills; one batch per run repeats the sweep in a NUMBA_BOUNDSCHECK=1 child. non-trivial = every case (each is a '
        'distinct call signature/length); distinct = distinct (length, flags, offset, dtypes, container, outlen delta)')
COMPONENTS = {'real': ['util.cumsum compiled by numba (production configuration) and compiled with NUMBA_BOUNDSCHECK=1'],
              'stub': []}
ASSUMPTIONS = ['values are small integers so that every dtype pairing holds the sums exactly',
               'an empty Python *list* cannot be typed by numba and is rejected loudly before the kernel runs; it is '
               'recorded as a probe, not as a violation (no wrong data is produced)']

PAIRS = [('i4', 'i4'), ('i4', 'i8'), ('u4', 'u4'), ('u4', 'u8'), ('u4', 'i8'), ('i8', 'i8'), ('u8', 'u8'),
         ('f4', 'f4'), ('f4', 'f8'), ('f8', 'f8'), ('i8', 'f8')]


def _case(n, initial, final, offset, pair, container='array', delta=0, vseed=0, layout='C'):
    return {'n': n, 'initial': initial, 'final': final, 'offset': offset, 'in': pair[0], 'out': pair[1],
            'container': container, 'delta': delta, 'vseed': vseed, 'layout': layout,
            'failed_call_before': (n + vseed) % 5 == 2,
            'out_layout': 'strided' if (n + int(initial) + 2 * int(final) + offset + vseed) % 4 == 1 else 'C'}


def sweep(tier):
    cases = []
    for n in range(0, 33 if tier == 'thorough' else 9):
        for initial in (False, True):
            for final in (False, True):
                for offset in (0, 5):
                    for pair in PAIRS:
                        cases.append(_case(n, initial, final, offset, pair, layout=['C', 'strided', 'readonly'][(n + offset + len(cases)) % 3]))
                    if n >= 1:
                        cases.append(_case(n, initial, final, offset, ('i8', 'i8'), 'list'))
                        cases.append(_case(n, initial, final, offset, ('u4', 'u8'), 'list'))
                for delta in (-1, 1):
                    if n - 1 + int(initial) + int(final) + delta >= 0:      # otherwise not constructible
                        cases.append(_case(n, initial, final, 0, ('i8', 'i8'), 'array', delta))
    for c in cases:
        yield c
    # sums beyond 2^63 in an unsigned 64-bit output (halo / particle offsets are uint64): compared as integers
    for n in range(1, 5):
        for initial in (False, True):
            for final in (False, True):
                yield dict(_case(n, initial, final, (1 << 63) - 1, ('u4', 'u8')), wide=True)
                yield dict(_case(n, initial, final, 3, ('u8', 'u8')), wide=True)
    # long inputs (where a blocked / threaded fast path would live): lengths around every power of two up to 2^21 and a
    # few odd ones, for each flag combination, three dtype pairings and 1, 3, 16 numba threads
    longs = sorted({(1 << k) + d for k in range(10, 22) for d in (-1, 0, 1)} | {65537 + 64, 100003, 1000003, 3 * (1 << 19) + 5})
    if tier != 'thorough':
        longs = [n for n in longs if n <= (1 << 20) + 1 or n == 3 * (1 << 19) + 5]
    for n in longs:
        for initial in (False, True):
            for final in (False, True):
                for pair in (('i8', 'i8'), ('u4', 'u8'), ('f8', 'f8')):
                    for T in (1, 3, 16):
                        if (n + T + int(initial)) % 3 == 0 or n in (65536, 65537, 1 << 20, (1 << 20) + 1):
                            yield dict(_case(n, initial, final, 5 if final else 0, pair), threads=T)
    # the same calls once more under numba's own bounds checking
    batch = [c for c in cases if c['delta'] == 0 and c['n'] - 1 + int(c['initial']) + int(c['final']) >= 0]
    yield {'bc_batch': batch[:len(batch) // 2]}
    yield {'bc_batch': batch[len(batch) // 2:]}


def gen(rng, tier):
    n = rng.choice([0, 1, 2, 9, 100, rng.randrange(0, 10 ** 4)])
    return _case(n, rng.random() < 0.5, rng.random() < 0.5, rng.choice([0, 1, 17, 1000]), rng.choice(PAIRS),
                 rng.choice(['array', 'array', 'list']) if n >= 1 else 'array', rng.choice([0, 0, 0, -1, 1, 3]),
                 rng.randrange(1 << 20), layout=rng.choice(['C', 'C', 'strided', 'readonly']))


def _values(case):
    n = case['n']
    r = np.random.default_rng(case['vseed'])
    v = (np.arange(n) * 3 + 1) % 7 + 1 if case['vseed'] == 0 else r.integers(0, 9, n)
    v = v.astype(np.dtype(case['in']))
    if case.get('wide') and case['in'] == 'u8' and n:
        v[0] = 1 << 63
    return v


class GapsWritten(Exception):
    pass


def kernel_call(case, arena):
    """The call under test.  ``arena`` None: plain numpy arrays (bounds-check child)."""
    from abacusnbody.util import cumsum
    v = _values(case)
    n_out = case['n'] - 1 + int(case['initial']) + int(case['final']) + case['delta']
    n_out = max(n_out, 0)
    odt = np.dtype(case['out'])
    if arena is None:
        arr = v if case['container'] == 'array' else [int(x) for x in v]
        out = np.full(n_out, 77, dtype=odt)
    else:
        lay = case.get('layout', 'C')
        if case['container'] != 'array':
            arr = [int(x) for x in v]
        elif lay == 'strided' and len(v):
            big = np.repeat(v, 2)
            big[1::2] = 99
            arr = arena.put(big)[::2]            # every second element of a longer array
        else:
            arr = arena.put(v)
            if lay == 'readonly':
                arr.setflags(write=False)
        gaps = None
        if case.get('out_layout') == 'strided' and n_out:
            gaps = arena.alloc(2 * n_out, odt, fill=77)
            out = gaps[::2]                      # a column of a wider table / every second slot of a buffer
        else:
            out = arena.alloc(n_out, odt, fill=77)
    if case.get('failed_call_before'):
        try:
            cumsum(np.arange(5), np.zeros(9, dtype=np.int64), initial=True, final=True)      # wrong length: rejected
        except Exception:
            pass
    T = case.get('threads')
    if T:
        import numba
        old = numba.get_num_threads()
        numba.set_num_threads(min(T, numba.config.NUMBA_NUM_THREADS))
    try:
        total = cumsum(arr, out, initial=case['initial'], final=case['final'], offset=case['offset'])
    finally:
        if T:
            numba.set_num_threads(old)
    if arena is not None and gaps is not None and not (gaps[1::2] == 77).all():
        raise GapsWritten('slots between the elements of a strided output were written')
    return np.array(out, copy=True), np.asarray(total)


def expected_int(case):
    ref = [int(case['offset'])]
    for x in _values(case).tolist():
        ref.append(ref[-1] + int(x))
    n = case['n']
    return ref[1 - int(case['initial']): n + int(case['final'])], ref[n]


def expected(case):
    v = _values(case).astype(np.float64)
    full = case['offset'] + np.concatenate([[0.0], np.cumsum(v)])
    n = case['n']
    return full[1 - int(case['initial']): n + int(case['final'])], full[n]


def run(case):
    from e3_arena import arena as A
    out = new_outcome()
    site = 'util.cumsum'
    if 'bc_batch' in case:
        from e3_arena import bc
        res, err = bc.run_child('c19', case['bc_batch'])
        if res is None:
            if 'signal' in (err or ''):
                violation(out, 'crash', site + '[boundscheck]', err)
            else:
                out['harness'] = err
            return out
        bump(out['faults'], 'NUMBA_BOUNDSCHECK-child-calls', len(res))
        for c, r in zip(case['bc_batch'], res):
            if r is not None and r['type'] == 'IndexError':
                violation(out, 'out-of-bounds-index', site + '[boundscheck]', {'case': c, 'error': r['msg']})
                return out
            if r is not None and r.get('other'):
                violation(out, 'raises:' + r['type'], site + '[boundscheck]', {'case': c, 'error': r['msg']})
                return out
        out['events'].append(['bc', len(res)])
        out['nontrivial'] = ['bc-batch', len(res), case['bc_batch'][0]]
        return out
    n_expected_out = case['n'] - 1 + int(case['initial']) + int(case['final'])
    ra, rb, da, db, exc = A.two_fills(lambda ar: kernel_call(case, ar), nbytes=1 << 18 if case['n'] < 2000 else max(1 << 20, 36 * case['n'] + (1 << 16)))
    bump(out['faults'], 'arena-two-fills')
    if n_expected_out + case['delta'] < 0 and case['delta'] != 0:
        case = dict(case, delta=0)      # a negative length cannot be constructed
    wrong_len = case['delta'] != 0 or n_expected_out < 0
    if wrong_len:
        if isinstance(exc, ValueError):
            bump(out['probes'], 'wrong-output-length-rejected')
        elif exc is not None:
            violation(out, 'raises:' + type(exc).__name__, site, repr(exc)[:200])
        else:
            violation(out, 'wrong-output-length-accepted', site, {'case': case})
        out['nontrivial'] = ['wrong-len', case['n'], case['initial'], case['final'], case['delta']]
        return out
    if isinstance(exc, GapsWritten):
        violation(out, 'write-outside-arrays', site, {'case': case, 'error': str(exc)})
        return out
    if exc is not None:
        violation(out, 'raises:' + type(exc).__name__, site, {'case': case, 'error': repr(exc)[:200]})
        return out
    if da or db:
        violation(out, 'write-outside-arrays', site, {'case': case, 'damaged': (da or db)[:2]})
        return out
    if not A.same(ra, rb):
        violation(out, 'depends-on-memory-outside-arrays', site,
                  {'case': case, 'total_fill_A': float(ra[1]), 'total_fill_B': float(rb[1])})
        return out
    if case.get('wide'):
        eo, et = expected_int(case)
        got_o, got_t = ra
        if [int(x) for x in got_o.tolist()] != eo or int(got_t) != et:
            violation(out, 'wrong-partial-sums', site, {'case': case, 'got': [int(x) for x in got_o.tolist()][:10], 'expected': eo[:10],
                                                        'total': int(got_t), 'expected_total': et, 'compared': 'as integers'})
            return out
        bump(out['probes'], 'sum-beyond-2^63-in-uint64')
    eo, et = expected(case)
    got_o, got_t = ra
    if not case.get('wide') and (got_o.shape != eo.shape or not np.array_equal(got_o.astype(np.float64), eo) or float(got_t) != float(et)):
        violation(out, 'wrong-partial-sums', site, {'case': case, 'got': got_o.astype(np.float64).tolist()[:10],
                                                    'expected': eo.tolist()[:10], 'total': float(got_t), 'expected_total': float(et)})
        return out
    if case['n'] == 0:
        bump(out['probes'], 'empty-input')
    if case['n'] == 1:
        bump(out['probes'], 'single-element')
    if case['container'] == 'list':
        bump(out['probes'], 'list-input')
    if case['n'] >= 65536:
        bump(out['probes'], 'long-input')
    if case.get('threads'):
        bump(out['faults'], 'numba-threads=%d' % case['threads'])
    out['events'].append(['ok', case['n'], case['initial'], case['final'], case['in'], case['out']])
    out['steps'] = 2
    out['nontrivial'] = [case['n'], case['initial'], case['final'], case['offset'], case['in'], case['out'],
                         case['container'], case['delta']]
    return out


def shrink(case):
    if 'bc_batch' in case:
        b = case['bc_batch']
        if len(b) > 1:
            yield {'bc_batch': b[:len(b) // 2]}
            yield {'bc_batch': b[len(b) // 2:]}
        return
    c = dict(case)
    if case['n'] > 0:
        yield dict(c, n=case['n'] // 2)
        yield dict(c, n=case['n'] - 1)
    if case['offset'] and not case.get('wide'):
        yield dict(c, offset=0)
    if (case['in'], case['out']) != ('i8', 'i8') and not case.get('wide'):
        yield dict(c, **{'in': 'i8', 'out': 'i8'})
    if case['container'] == 'list':
        yield dict(c, container='array')
    if case['vseed']:
        yield dict(c, vseed=0)
