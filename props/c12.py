"""C12 -- HOD staging keeps every per-halo attribute on the same row.

Engine E2: the prepared subsample files (h5 halo / particle slabs) and the
halo_info directory that AbacusHOD.staging reads are simulated storage.  Every
attribute of halo ``id`` is a known injective function f_k(id), and ids appear
increasing, decreasing or interleaved across slab files, so after the
constructor every per-halo array can be checked row by row, and every
particle's host index against the id it records.  All staging arrays are
np.empty (poisoned allocator).
"""
import copy
import os

import numpy as np

from simcore.core import new_outcome, violation, bump

PID = 'C12'
QUICK_RUNS = 600
QUICK_SECONDS = 150
THOROUGH_SECONDS = 900
CASE_TIMEOUT = 300
LEVEL = 'exploration'
RULE = ('case = (1-4 slab files, per slab 0-8 halos with ids increasing / decreasing / interleaved across slabs, 0-4 '
        'particles per halo, flags want_AB / want_shear / want_ranks / want_expvel, LRG-only or multi-tracer file names, '
        'chunking n_chunks/chunk, 1-D or 3-column velocity deviates). non-trivial = >= 2 slabs with >= 1 halo each; '
        'distinct = distinct (slabs, id order class, flags, tracer naming, chunking, halos bucket)')
COMPONENTS = {'real': ['hod/abacus_hod.py AbacusHOD.__init__/staging, _searchsorted_parallel (compiled); h5py, asdf real'],
              'stub': ['prepare_sim output (stub writer of the h5 slabs)', 'Corrfunc / parallel_numpy_rng (import-only)']}
ASSUMPTIONS = ['halo ids are unique across slabs (duplicate-free, as stated in the property quantifier)',
               'at least two distinct halo masses (the constructor histograms log-mass between its min and max)']


def gen(rng, tier):
    nslab = rng.randrange(1, 5)
    order = rng.choice(['increasing', 'decreasing', 'interleaved', 'random'])
    counts = [rng.randrange(0, 9) for _ in range(nslab)]
    if sum(counts) < 2:
        counts[0] = 2
    total = sum(counts)
    ids = rng.sample(range(1, 5000), total)
    if order == 'increasing':
        ids.sort()
    elif order == 'decreasing':
        ids.sort(reverse=True)
    elif order == 'interleaved':
        ids.sort()
        ids = ids[::2] + ids[1::2]
    r_big = rng.random()
    if r_big < 0.05:
        # large tables with "round" slab sizes: ids increasing inside each slab, slabs in decreasing or rotated order
        # (one case in a hundred: a few hundred thousand halos, the size of a real simulation slab set)
        nslab = rng.randrange(2, 4)
        counts = [rng.choice([1024, 2048, 4096, 4096, 8192] if r_big >= 0.01 else [65536, 65536, 100000, 131072]) for _ in range(nslab)]
        total = sum(counts)
        base = sorted(rng.sample(range(1, 4 * total), total))
        blocks, k0 = [], 0
        for n in counts:
            blocks.append(base[k0:k0 + n])
            k0 += n
        order = rng.choice(['decreasing', 'rotated'])
        blocks = blocks[::-1] if order == 'decreasing' else blocks[1:] + blocks[:1]
        counts = [len(b) for b in blocks]
        ids = [i for b in blocks for i in b]
        big = True
    else:
        big = False
    slabs, k = [], 0
    for n in counts:
        sl = ids[k:k + n]
        if order in ('increasing', 'interleaved'):
            pass
        k += n
        if big:
            slabs.append({'ids': sl, 'parts': [[i, 1] for i in rng.sample(sl, 5)]})
        else:
            slabs.append({'ids': sl, 'parts': [[i, rng.randrange(0, 5)] for i in rng.sample(sl, len(sl))]})
    n_chunks = 1 if big else rng.choice([1, 1, 1, 2, nslab])
    chunk = -1
    if n_chunks > 1:
        nj = -(-nslab // n_chunks)
        ok = [c for c in range(n_chunks) if sum(len(s['ids']) for s in slabs[c * nj:(c + 1) * nj]) >= 2]
        if ok:
            chunk = rng.choice(ok)
        else:
            n_chunks = 1
    return {'slabs': slabs, 'order': order, 'want_AB': rng.random() < 0.5, 'want_shear': rng.random() < 0.5,
            'want_ranks': rng.random() < 0.5, 'want_expvel': rng.random() < 0.3,
            'tracers': rng.choice([['LRG'], ['LRG'], ['LRG', 'ELG'], ['ELG', 'QSO']]), 'force_mt': rng.random() < 0.2,
            'n_chunks': n_chunks, 'chunk': chunk,
            'failed_call_before': rng.random() < 0.2, 'z_mock': rng.choice([0.5, 0.5, 0.5, 0.65]),
            'id_base': rng.choice([0, 0, 0, 2 ** 53 + 1, 2 ** 62 + 12345]), 'id_dtype': rng.choice(['i8', 'i8', 'u8']),
            'veldev_1d': rng.random() < 0.15, 'poison': rng.choice(['A', 'B']), 'extra_rank_cols': rng.random() < 0.7}


# per-halo attribute functions f_k(id): injective in id
def F(hid, base=0):
    if base:
        hid = [int(x) - base for x in np.asarray(hid, dtype=object).ravel()]
    hid = np.asarray(hid, dtype=np.float64)
    return {
        'x_L2com': np.stack([hid * 0.01, hid * 0.02 + 1, -hid * 0.015], axis=-1),
        'v_L2com': np.stack([hid * 0.3, -hid * 0.2, hid * 0.1 + 7], axis=-1),
        'N': 100 + 3 * hid,
        'multi_halos': 1.0 + (hid % 3),
        'randoms': (hid * 0.6180339887) % 1.0,
        'randoms_gaus_vrms': np.stack([hid * 0.5 + 1, hid * 0.25 - 2, -hid * 0.125], axis=-1),
        'randoms_exp': np.stack([-hid * 0.5 - 1, hid * 0.75 + 2, hid * 0.0625], axis=-1),
        'sigmav3d_L2com': 50 + hid * 0.1,
        'r98_L2com': 1 + hid * 0.01,
        'r25_L2com': 0.5 + hid * 0.003,
        'deltac_rank': (hid % 101) / 101.0 - 0.5,
        'fenv_rank': (hid % 97) / 97.0 - 0.5,
        'shear_rank': (hid % 89) / 89.0 - 0.5,
    }


def write_files(case, root):
    import asdf
    import h5py
    sim = 'SimWorld'
    z = case.get('z_mock', 0.5)           # 0.5: a primary epoch (halos and particles); 0.65: a secondary one (halos only)
    zdir = 'z%4.3f' % z
    hi = os.path.join(root, 'sims', sim, 'halos', zdir, 'halo_info')
    os.makedirs(hi)
    header = {'H0': 67.36, 'BoxSize': 500.0, 'ParticleMassHMsun': 2.0e9, 'VelZSpace_to_kms': 5000.0,
              'LightConeOrigins': [-990.0, -990.0, -990.0]}
    for i in range(len(case['slabs'])):
        asdf.AsdfFile({'header': header, 'data': {'id': np.zeros(1, dtype=np.uint64)}}).write_to(
            os.path.join(hi, 'halo_info_%03d.asdf' % i))
    sub = os.path.join(root, 'subsamples', sim, zdir)
    os.makedirs(sub)
    mt = ('ELG' in case['tracers']) or ('QSO' in case['tracers']) or case['force_mt']
    serial = 0
    truth_parts = []
    for i, sl in enumerate(case['slabs']):
        stem_h = 'halos_xcom_%d_seed600_abacushod_oldfenv' % i + ('_MT' if mt else '')
        stem_p = 'particles_xcom_%d_seed600_abacushod_oldfenv' % i + ('_MT' if mt else '') + \
                 ('_withranks' if case['want_ranks'] else '')
        f = F(sl['ids'])
        vd = 'randoms_exp' if case['want_expvel'] else 'randoms_gaus_vrms'
        dt = [('id', 'i8'), ('x_L2com', 'f4', 3), ('v_L2com', 'f4', 3), ('randoms_exp', 'f4', 3),
              ('randoms_gaus_vrms', 'f4', 3), ('sigmav3d_L2com', 'f4'), ('r98_L2com', 'f4'), ('r25_L2com', 'f4'),
              ('N', 'i8'), ('deltac_rank', 'f8'), ('fenv_rank', 'f8'), ('shear_rank', 'f8'), ('multi_halos', 'f8'),
              ('randoms', 'f8')]
        if case['veldev_1d']:
            dt = [d if d[0] not in ('randoms_exp', 'randoms_gaus_vrms') else (d[0], 'f4') for d in dt]
        base = int(case.get('id_base', 0))
        if case.get('id_dtype', 'i8') == 'u8':
            dt[0] = ('id', 'u8')          # what prepare_sim writes from CompaSO catalogues
        h = np.zeros(len(sl['ids']), dtype=dt)
        h['id'] = np.array([base + i for i in sl['ids']], dtype=dt[0][1])
        for k, v in f.items():
            if case['veldev_1d'] and k in ('randoms_exp', 'randoms_gaus_vrms'):
                h[k] = v[:, 2] if len(sl['ids']) else v.reshape(0)
            else:
                h[k] = v
        with h5py.File(os.path.join(sub, stem_h + '_new.h5'), 'w') as fh:
            fh.create_dataset('halos', data=h)
        pdt = [('pos', 'f4', 3), ('vel', 'f4', 3), ('halo_vel', 'f4', 3), ('halo_mass', 'f8'), ('halo_id', 'i8'),
               ('Np', 'f8'), ('downsample_halo', 'f8'), ('randoms', 'f8'), ('halo_deltac', 'f8'), ('halo_fenv', 'f8'),
               ('halo_shear', 'f8')]
        if case['want_ranks']:
            pdt += [('ranks', 'f8'), ('ranksv', 'f8')]
            if case['extra_rank_cols']:
                pdt += [('ranksp', 'f8'), ('ranksr', 'f8'), ('ranksc', 'f8')]
        rows = []
        for hid, npart in sl['parts']:
            for _ in range(npart):
                serial += 1
                rows.append((hid, serial))
        p = np.zeros(len(rows), dtype=pdt)
        for r, (hid, s) in enumerate(rows):
            fh_ = F([hid])
            p['pos'][r] = [s * 0.01, s * 0.02, s * 0.03]
            p['vel'][r] = [s * 1.0, -s * 2.0, s * 0.5]
            p['halo_vel'][r] = fh_['v_L2com'][0]
            p['halo_mass'][r] = fh_['N'][0] * header['ParticleMassHMsun']
            p['halo_id'][r] = base + hid
            p['Np'][r] = 10 + (s % 7)
            p['downsample_halo'][r] = 0.25 + (s % 3) * 0.25
            p['randoms'][r] = (s * 0.754877666) % 1.0
            p['halo_deltac'][r] = fh_['deltac_rank'][0]
            p['halo_fenv'][r] = fh_['fenv_rank'][0]
            p['halo_shear'][r] = fh_['shear_rank'][0]
            if case['want_ranks']:
                p['ranks'][r] = (s % 11) / 11.0
                p['ranksv'][r] = (s % 13) / 13.0
                if case['extra_rank_cols']:
                    p['ranksp'][r] = (s % 17) / 17.0
                    p['ranksr'][r] = (s % 19) / 19.0
                    p['ranksc'][r] = (s % 23) / 23.0
            truth_parts.append((i, base + hid, s))
        with h5py.File(os.path.join(sub, stem_p + '_new.h5'), 'w') as fh:
            fh.create_dataset('particles', data=p)
    sim_params = {'sim_name': sim, 'sim_dir': os.path.join(root, 'sims'), 'output_dir': os.path.join(root, 'mocks'),
                  'subsample_dir': os.path.join(root, 'subsamples'), 'z_mock': z, 'force_mt': case['force_mt']}
    hod_params = {'tracer_flags': {t: (t in case['tracers']) for t in ('LRG', 'ELG', 'QSO')},
                  'want_ranks': case['want_ranks'], 'want_AB': case['want_AB'], 'want_shear': case['want_shear'],
                  'want_expvel': case['want_expvel'], 'want_rsd': True,
                  'LRG_params': {'logM_cut': 13.0}, 'ELG_params': {'logM_cut': 12.0}, 'QSO_params': {'logM_cut': 12.5}}
    return sim_params, hod_params, header, truth_parts


def run(case):
    from e2_world import catalog as C
    from instr import rt
    out = new_outcome()
    import logging
    logging.disable(logging.CRITICAL)
    from abacusnbody.hod.abacus_hod import AbacusHOD
    site = 'AbacusHOD.staging'
    nslab0 = len(case['slabs'])
    if case['n_chunks'] > 1:
        nj0 = int(np.ceil(nslab0 / case['n_chunks']))
        sel = case['slabs'][case['chunk'] * nj0:(case['chunk'] + 1) * nj0]
    else:
        sel = case['slabs']
    if sum(len(s['ids']) for s in sel) < 2:
        bump(out['probes'], 'degenerate-chunk-skipped')     # outside the stated preconditions (see ASSUMPTIONS)
        return out
    with C.scratch() as root:
        sim_params, hod_params, header, truth_parts = write_files(case, root)
        rt.Alloc.set(case.get('poison', 'A'))
        if case.get('failed_call_before'):
            # history: the same staging was first asked for a redshift that has no files and failed
            try:
                AbacusHOD(dict(sim_params, z_mock=9.875), hod_params, chunk=case['chunk'], n_chunks=case['n_chunks'])
            except Exception:
                pass
            # ... and for another simulation (other ids) whose last particle file is missing: that one dies midway,
            # after the earlier slabs were read
            if sum(len(s_['ids']) for s_ in case['slabs']) < 5000 and len(case['slabs']) >= 2:
                import glob
                other = copy.deepcopy(case)
                for s_ in other['slabs']:
                    s_['ids'] = [i + 5000 for i in s_['ids']]
                    s_['parts'] = [[i + 5000, k] for i, k in s_['parts']]
                sp2, hp2, _, _ = write_files(other, os.path.join(root, 'previous-run'))
                victims = sorted(glob.glob(os.path.join(sp2['subsample_dir'], '*', '*', 'particles_xcom_%d_*' % (len(case['slabs']) - 1))))
                for v in victims:
                    os.unlink(v)
                try:
                    AbacusHOD(sp2, hp2, chunk=case['chunk'], n_chunks=case['n_chunks'])
                except Exception:
                    pass
            bump(out['faults'], 'failed-call-before')
        try:
            with C.environment({'poison': case.get('poison', 'A'), 'shuffle_glob': True, 'glob_seed': 3}, out['faults']):
                obj = AbacusHOD(sim_params, hod_params, chunk=case['chunk'], n_chunks=case['n_chunks'])
        except Exception as e:
            violation(out, 'raises:' + type(e).__name__, site, repr(e)[:400])
            return out
        hd, pd = obj.halo_data, obj.particle_data
    nslab = len(case['slabs'])
    if case['n_chunks'] == 1:
        mine = list(range(nslab))
    else:
        nj = int(np.ceil(nslab / case['n_chunks']))
        mine = list(range(case['chunk'] * nj, min((case['chunk'] + 1) * nj, nslab)))
    base = int(case.get('id_base', 0))
    ids = sorted(base + i for k in mine for i in case['slabs'][k]['ids'])
    hid = np.asarray(hd['hid'])
    if hid.tolist() != ids:
        kind = 'ids-not-sorted' if sorted(hid.tolist()) == ids else 'wrong-halo-set'
        violation(out, kind, site, {'got': hid.tolist()[:10], 'expected': ids[:10]})
        return out
    f = F(hid, base)
    Mpart = header['ParticleMassHMsun']
    vd = f['randoms_exp'] if case['want_expvel'] else f['randoms_gaus_vrms']
    if case['veldev_1d']:
        vd = np.repeat(vd[:, 2:3], 3, axis=1) if False else None    # the 1-D fallback reshuffles z randoms; only shape is checked
    expect = {'hpos': f['x_L2com'], 'hvel': f['v_L2com'], 'hmass': f['N'] * Mpart, 'hmultis': f['multi_halos'],
              'hrandoms': f['randoms'], 'hveldev': vd, 'hsigma3d': f['sigmav3d_L2com'],
              'hc': f['r98_L2com'].astype(np.float32).astype(np.float64) / f['r25_L2com'].astype(np.float32).astype(np.float64),
              'hrvir': f['r98_L2com']}
    if case['want_AB']:
        expect['hdeltac'] = f['deltac_rank']
        expect['hfenv'] = f['fenv_rank']
    if case['want_shear']:
        expect['hshear'] = f['shear_rank']
    for k, exp in expect.items():
        if k not in hd:
            violation(out, 'missing-array', site, k)
            return out
        got = np.asarray(hd[k], dtype=np.float64)
        if exp is None:
            if got.shape != (len(ids), 3):
                violation(out, 'bad-shape', site, {'array': k, 'shape': list(got.shape)})
                return out
            continue
        if got.shape != exp.shape:
            violation(out, 'bad-shape', site, {'array': k, 'shape': list(got.shape), 'expected': list(exp.shape)})
            return out
        bad = ~np.isclose(got, exp, rtol=3e-6, atol=1e-9)
        if bad.any():
            r = int(np.argwhere(bad)[0][0])
            # which halo does the value on this row really belong to?
            owner = None
            for cand in ids:
                fc = F([cand], base)
                key = {'hpos': 'x_L2com', 'hvel': 'v_L2com', 'hmultis': 'multi_halos', 'hrandoms': 'randoms',
                       'hsigma3d': 'sigmav3d_L2com', 'hrvir': 'r98_L2com', 'hdeltac': 'deltac_rank', 'hfenv': 'fenv_rank',
                       'hshear': 'shear_rank'}.get(k)
                if key and np.allclose(np.asarray(hd[k], dtype=np.float64)[r], fc[key][0], rtol=3e-6):
                    owner = cand
                    break
            violation(out, 'attribute-on-wrong-row', '%s[%s]' % (site, k),
                      {'row': r, 'halo_id_on_row': int(hid[r]), 'value_belongs_to_halo': owner,
                       'id_order_across_slabs': case['order']})
            return out
    # particles
    tp = [t for t in truth_parts if t[0] in mine]
    if case.get('z_mock', 0.5) != 0.5:
        tp = []              # secondary epochs have no particle subsamples: the staged particle table is empty
        bump(out['probes'], 'secondary-redshift')
    phid = np.asarray(pd['phid'])
    if phid.tolist() != [t[1] for t in tp]:
        violation(out, 'particle-order', site, 'particle host ids are not the concatenation of the slab files')
        return out
    pinds = np.asarray(pd['pinds'])
    if len(tp) and (pinds.min() < 0 or pinds.max() >= len(hid) or hid.astype(np.uint64)[pinds].tolist() != phid.astype(np.uint64).tolist()):
        violation(out, 'particle-host-index', site, 'hid[pinds] != phid')
        return out
    s = np.array([t[2] for t in tp], dtype=np.float64)
    if len(tp):
        pe = {'ppos': np.stack([s * 0.01, s * 0.02, s * 0.03], axis=1), 'pvel': np.stack([s, -2 * s, 0.5 * s], axis=1),
              'phvel': F(phid, base)['v_L2com'], 'phmass': F(phid, base)['N'] * Mpart, 'prandoms': (s * 0.754877666) % 1.0,
              'pweights': 1.0 / (10 + (s % 7)) / (0.25 + (s % 3) * 0.25)}
        if case['want_AB']:
            pe['pdeltac'] = F(phid, base)['deltac_rank']
            pe['pfenv'] = F(phid, base)['fenv_rank']
        if case['want_shear']:
            pe['pshear'] = F(phid, base)['shear_rank']
        if case['want_ranks']:
            pe['pranks'] = (s % 11) / 11.0
            pe['pranksv'] = (s % 13) / 13.0
            pe['pranksp'] = (s % 17) / 17.0 if case['extra_rank_cols'] else np.zeros(len(s))
            pe['pranksr'] = (s % 19) / 19.0 if case['extra_rank_cols'] else np.zeros(len(s))
            pe['pranksc'] = (s % 23) / 23.0 if case['extra_rank_cols'] else np.zeros(len(s))
        for k, exp in pe.items():
            got = np.asarray(pd[k], dtype=np.float64)
            if got.shape != exp.shape or not np.allclose(got, exp, rtol=3e-6, atol=1e-9):
                violation(out, 'particle-attribute-mismatch', '%s[%s]' % (site, k), {'n': len(tp)})
                return out
    bump(out['probes'], 'id-order:' + case['order'])
    if case['n_chunks'] > 1:
        bump(out['probes'], 'chunked')
    nonempty = sum(1 for k in mine if case['slabs'][k]['ids'])
    unsorted_in = ids != [i for k in mine for i in case['slabs'][k]['ids']]
    if unsorted_in:
        bump(out['probes'], 'resorting-path-taken')
    out['events'].append(['staged', len(ids), len(tp), case['order'], mine])
    out['steps'] = len(mine)
    if nonempty >= 2:
        out['nontrivial'] = [len(mine), case['order'], unsorted_in, case['want_AB'], case['want_shear'], case['want_ranks'],
                             case['want_expvel'], sorted(case['tracers']), case['n_chunks'], min(len(ids), 16) // 4]
    return out


def shrink(case):
    c = copy.deepcopy(case)
    if case.get('id_base'):
        yield dict(c, id_base=0)
    if case.get('id_dtype', 'i8') != 'i8':
        yield dict(c, id_dtype='i8')
    if len(case['slabs']) > 1:
        for i in range(len(case['slabs'])):
            sl = case['slabs'][:i] + case['slabs'][i + 1:]
            if sum(len(s['ids']) for s in sl) >= 2:
                yield dict(c, slabs=sl, n_chunks=1, chunk=-1)
    for i, s in enumerate(case['slabs']):
        for j in range(len(s['ids'])):
            if sum(len(x['ids']) for x in case['slabs']) <= 2:
                continue
            sl = copy.deepcopy(case['slabs'])
            hid = sl[i]['ids'].pop(j)
            sl[i]['parts'] = [p for p in sl[i]['parts'] if p[0] != hid]
            yield dict(c, slabs=sl)
        if any(p[1] for p in s['parts']):
            sl = copy.deepcopy(case['slabs'])
            sl[i]['parts'] = [[p[0], 0] for p in s['parts']]
            yield dict(c, slabs=sl)
    for k in ('want_AB', 'want_shear', 'want_ranks', 'want_expvel', 'veldev_1d', 'force_mt'):
        if case[k]:
            yield dict(c, **{k: False})
    if case['n_chunks'] != 1:
        yield dict(c, n_chunks=1, chunk=-1)
