"""C14 -- Blosc block decompression is independent of stream chunking.

Seam: the iterator of byte chunks handed to ``BloscCompressor.decompress``
(S4).  The simulator is the I/O layer: it owns how the compressed stream is
cut into successive reads.  The codec is a stub (fakes/blosc); the frame writer
and the reassembly state machine are the repository's code.
"""
import os
import struct
import tempfile

import numpy as np

from simcore.core import new_outcome, violation, bump

PID = 'C14'
QUICK_RUNS = 20000
QUICK_SECONDS = 120
THOROUGH_SECONDS = 900
CASE_TIMEOUT = 120
LEVEL = 'exploration'
RULE = ('case = (payload size/itemsize/compression block size, symbolic cut list resolved against the '
        'actual frame layout, chunk object types, direct-iterator or asdf end-to-end with io_block_size; in 35% of the '
        'cases one or two other streams are decompressed at the same time by the same compressor instance, their '
        'chunk pulls interleaved by the seeded scheduler). '
        'non-trivial = stream cut into >= 2 chunks; distinct = distinct (frames, sorted cut classes, '
        'chunk types, mode, io_block_size) tuples')
COMPONENTS = {'real': ['abacusnbody.data.asdf.BloscCompressor.compress/decompress', 'asdf block reader/writer'],
              'stub': ['blosc codec (fakes/blosc: stored/zlib payload behind a 16-byte header)']}
ASSUMPTIONS = ['blosc C codec replaced by an in-process stub that rejects any frame that is not byte-exact',
               'asdf>=5 writer shim passes a memoryview to Compressor.compress (documented interface)']

IO_BLOCKS = [1, 2, 3, 5, 7, 13, 64, 4096, None]
TYPES = ['bytes', 'bytearray', 'memoryview', 'np.uint8']


def gen(rng, tier):
    itemsize = rng.choice([1, 2, 4, 8, 12])
    nitems = rng.choice([0, 1, 2, 3, 5, 17, 100, rng.randrange(0, 400), rng.randrange(0, 6000)] + ([rng.randrange(6000, 6001 + 65536 // itemsize)] if tier == 'thorough' else []))
    big = rng.random() < 0.01
    if big:
        nitems = rng.randrange(5 << 20, 9 << 20) // itemsize      # more than one default (4 MiB) compression block
    nbytes = nitems * itemsize
    nframes_target = rng.choice([1, 1, 2, 3, 4, 9])
    per = max(1, -(-max(nitems, 1) // nframes_target))
    cbs = per * itemsize + rng.choice([0, 0, itemsize - 1])
    if big:
        cbs = 1 << 22
    cuts = []
    style = rng.choice(['prefix', 'boundary', 'random', 'ones', 'single', 'mixed', 'mixed'])
    if big and style == 'ones':
        style = 'mixed'          # millions of one-byte reads take minutes on a loaded machine and add nothing over 64 KiB
    nf = max(1, -(-nitems // max(1, cbs // itemsize))) if nitems else 0
    if style in ('prefix', 'mixed'):
        for f in range(nf):
            if rng.random() < 0.7:
                cuts.append(['prefix', f, rng.choice([1, 2, 3])])
            if rng.random() < 0.2:
                cuts.append(['prefix', f, rng.choice([1, 2, 3])])
    if style in ('boundary', 'mixed'):
        for f in range(nf):
            if rng.random() < 0.6:
                cuts.append(['frame', f, rng.choice([-1, 0, 1, 4, 5])])
    if style in ('random', 'mixed'):
        for _ in range(rng.randrange(1, 8)):
            cuts.append(['abs', rng.random()])
    empties = sorted(rng.random() for _ in range(rng.choice([0, 0, 1, 3])))
    mode = rng.choice(['direct', 'direct', 'direct', 'asdf'])
    conc = None
    if rng.random() < 0.35:
        # other blocks being read at the same time (the extension's single compressor instance serves every block
        # of every open file): their chunk iterators are stepped by the same seeded scheduler
        conc = {'seed': rng.randrange(1 << 30),
                'others': [{'nitems': rng.choice([1, 3, 17, 100, rng.randrange(1, 400)]), 'chunk': rng.choice([1, 2, 3, 5, 7, 64]),
                            'nframes': rng.choice([1, 2, 3])} for _ in range(rng.choice([1, 1, 2]))]}
    return {
        'concurrent': conc, 'reused_buffer': rng.random() < 0.25, 'failed_call_before': rng.random() < 0.2,
        'pseed': rng.randrange(1 << 30), 'pattern': rng.choice(['random', 'ramp', 'zeros']),
        'nitems': nitems, 'itemsize': itemsize, 'cbs': cbs, 'cuts': cuts,
        'ones': style == 'ones', 'empties': empties,
        'types': [rng.choice(TYPES) for _ in range(4)],
        'mode': mode, 'io_block': rng.choice(IO_BLOCKS), 'poison': rng.choice(['A', 'B']),
    }


def _payload(case):
    n = case['nitems'] * case['itemsize']
    r = np.random.default_rng(case['pseed'])
    if case['pattern'] == 'random':
        b = r.integers(0, 256, n, dtype=np.uint8)
    elif case['pattern'] == 'ramp':
        b = (np.arange(n) % 251).astype(np.uint8)
    else:
        b = np.zeros(n, dtype=np.uint8)
        if n:
            b[r.integers(0, n)] = 7
    return b


def _dtype(itemsize):
    return {1: np.dtype('u1'), 2: np.dtype('<u2'), 4: np.dtype('<u4'), 8: np.dtype('<u8'),
            12: np.dtype([('a', '<u4'), ('b', '<u4'), ('c', '<u4')])}[itemsize]


def _parse_frames(stream):
    """Independent reader of the documented framing: big-endian u32 length + frame."""
    frames, pos = [], 0
    while pos < len(stream):
        if pos + 4 > len(stream):
            raise ValueError('truncated length prefix at %d' % pos)
        (n,) = struct.unpack('>I', stream[pos:pos + 4])
        if pos + 4 + n > len(stream):
            raise ValueError('truncated frame at %d' % pos)
        frames.append((pos, n))
        pos += 4 + n
    return frames


def _resolve_cuts(case, stream, frames):
    L = len(stream)
    pts = set()
    classes = set()
    for c in case['cuts']:
        if c[0] == 'prefix' and c[1] < len(frames):
            pts.add(frames[c[1]][0] + c[2])
            classes.add('in-prefix-%d' % c[2])
        elif c[0] == 'frame' and c[1] < len(frames):
            p = frames[c[1]][0] + 4 + c[2]
            pts.add(p)
            classes.add('frame-start%+d' % c[2])
        elif c[0] == 'abs':
            pts.add(int(c[1] * L))
            classes.add('abs')
    if case.get('ones'):
        pts = set(range(1, L))
        classes.add('one-byte-chunks')
    pts = sorted(p for p in pts if 0 < p < L)
    chunks, last = [], 0
    for p in pts + [L]:
        chunks.append(stream[last:p])
        last = p
    # classify cuts that landed inside a frame body
    for p in pts:
        for (fs, n) in frames:
            if fs + 4 < p < fs + 4 + n:
                classes.add('in-frame')
            elif p == fs and fs:
                classes.add('at-frame-boundary')
    # empty chunks
    for e in case['empties']:
        chunks.insert(int(e * (len(chunks) + 1)), b'')
        classes.add('empty-chunk')
    return chunks, classes


def _as_type(b, t):
    if t == 'bytes':
        return bytes(b)
    if t == 'bytearray':
        return bytearray(b)
    if t == 'memoryview':
        return memoryview(bytes(b))
    return np.frombuffer(bytes(b), dtype=np.uint8)


def _decompress(BloscCompressor, chunks, nbytes, poison):
    guard = 64
    fillv = {'A': 0xFF, 'B': 0x7F}[poison]
    buf = np.full(nbytes + guard, fillv, dtype=np.uint8)
    out = memoryview(buf)[:nbytes]
    n = BloscCompressor().decompress(iter(chunks), out)
    return n, buf[:nbytes].copy(), bool((buf[nbytes:] == fillv).all())


def run(case):
    from abacusnbody.data.asdf import BloscCompressor
    from instr import rt
    import blosc as fake
    out = new_outcome()
    rt.Alloc.set(case.get('poison', 'A'))
    payload = _payload(case)
    nbytes = len(payload)
    arr = payload.view(_dtype(case['itemsize'])) if nbytes else np.zeros(0, _dtype(case['itemsize']))
    # ---- compress with the repository's frame writer
    try:
        pieces = list(BloscCompressor().compress(memoryview(arr), compression_block_size=case['cbs']))
    except Exception as e:
        violation(out, 'raises:' + type(e).__name__, 'compress', repr(e))
        return out
    stream = b''.join(bytes(p) for p in pieces)
    try:
        frames = _parse_frames(stream)
        raw = b''.join(fake.decompress(stream[s + 4:s + 4 + n]) for s, n in frames)
    except Exception as e:
        violation(out, 'bad-framing', 'compress', repr(e))
        return out
    if raw != payload.tobytes():
        violation(out, 'roundtrip', 'compress', 'independent frame reader recovers different bytes')
        return out
    nelem = max(1, case['cbs'] // case['itemsize'])
    want_frames = -(-case['nitems'] // nelem)
    if len(frames) != want_frames:
        violation(out, 'frame-count', 'compress', 'frames=%d expected=%d' % (len(frames), want_frames))
    out['events'].append(['frames', len(frames), len(stream)])
    chunks, classes = _resolve_cuts(case, stream, frames)
    types = case['types']
    tchunks = [_as_type(c, types[i % len(types)]) for i, c in enumerate(chunks)]
    for cl in classes:
        bump(out['faults'], cl)
    bump(out['probes'], 'frames=%s' % (len(frames) if len(frames) < 3 else '3+'))
    shared = BloscCompressor()
    if case.get('failed_call_before') and len(stream) > 8:
        # history: the same compressor instance was first given a damaged stream (a flipped byte inside the first
        # frame, cut in two chunks) and failed; the valid streams that follow must be unaffected
        bad = bytearray(stream)
        bad[min(len(bad) - 1, 9)] ^= 0x5A
        try:
            _decompress(lambda: shared, [bytes(bad[:7]), bytes(bad[7:])], nbytes, case.get('poison', 'A'))
        except Exception:
            pass
        bump(out['faults'], 'failed-call-before')
    # ---- baseline: whole stream in one chunk
    site = 'decompress-direct'
    try:
        n0, b0, ok0 = _decompress(BloscCompressor, [stream], nbytes, case.get('poison', 'A'))
    except Exception as e:
        violation(out, 'raises:' + type(e).__name__, site + '-onechunk', repr(e))
        return out
    if n0 != nbytes:
        violation(out, 'wrong-length', site + '-onechunk', 'returned %r, payload %d' % (n0, nbytes))
    if b0.tobytes() != payload.tobytes():
        violation(out, 'wrong-bytes', site + '-onechunk', 'first diff at %d' % _firstdiff(b0, payload))
    # ---- the chunked history
    try:
        n1, b1, ok1 = _decompress((lambda: shared) if case.get('failed_call_before') else BloscCompressor, tchunks, nbytes,
                                  case.get('poison', 'A'))
    except Exception as e:
        violation(out, 'raises:' + type(e).__name__, site, repr(e)[:300])
        n1 = None
    if n1 is not None:
        if n1 != nbytes:
            violation(out, 'wrong-length', site, 'returned %r, payload %d, chunks=%d' % (n1, nbytes, len(chunks)))
        if b1.tobytes() != payload.tobytes():
            violation(out, 'wrong-bytes', site, 'first diff at byte %d of %d' % (_firstdiff(b1, payload), nbytes))
        if not ok1 or not ok0:
            violation(out, 'write-past-end', site, 'guard zone after the output buffer was modified')
        out['events'].append(['direct', n1, len(chunks)])
    # ---- the same history read through one reused, writable buffer (readinto + yield memoryview(buf)[:n])
    if case.get('reused_buffer') and n1 is not None and len(chunks) <= 200000:
        site = 'decompress-reused-read-buffer'

        def reuse(chs):
            buf = bytearray(max([len(c) for c in chs] + [1]))
            for c in chs:
                buf[:len(c)] = c
                yield memoryview(buf)[:len(c)]
                buf[:len(c)] = b'\xee' * len(c)        # the reader moves on: the old contents are gone
        try:
            n2, b2, ok2 = _decompress(BloscCompressor, reuse(chunks), nbytes, case.get('poison', 'A'))
            if n2 != nbytes:
                violation(out, 'wrong-length', site, 'returned %r, payload %d' % (n2, nbytes))
            elif b2.tobytes() != payload.tobytes():
                violation(out, 'wrong-bytes', site, 'first diff at byte %d of %d' % (_firstdiff(b2, payload), nbytes))
            bump(out['faults'], 'reused-read-buffer')
        except Exception as e:
            violation(out, 'raises:' + type(e).__name__, site, repr(e)[:300])
    # ---- the same history while other blocks are being decompressed by the same compressor instance
    if case.get('concurrent') and n1 is not None and len(tchunks) <= 20000:
        conc = case['concurrent']
        streams = [(tchunks, nbytes)]
        pays = [payload]
        for j, o in enumerate(conc['others']):
            p2 = np.random.default_rng(conc['seed'] + j).integers(0, 256, o['nitems'] * case['itemsize'], dtype=np.uint8)
            a2 = p2.view(_dtype(case['itemsize']))
            cb2 = max(1, -(-o['nitems'] // o['nframes'])) * case['itemsize']
            s2 = b''.join(bytes(x) for x in BloscCompressor().compress(memoryview(a2), compression_block_size=cb2))
            streams.append(([s2[i:i + o['chunk']] for i in range(0, len(s2), o['chunk'])], len(p2)))
            pays.append(p2)
        site = 'decompress-concurrent'
        res, order = _interleaved(BloscCompressor(), streams, conc['seed'], case.get('poison', 'A'))
        sw = sum(1 for a, b in zip(order, order[1:]) if a != b)
        bump(out['faults'], 'reader-switches', sw)
        bump(out['faults'], 'concurrent-streams', len(streams))
        for k, r in enumerate(res):
            who = 'stream-%d' % k
            if r is None or r[0] == 'stalled':
                out['harness'] = 'simulated reader stalled'
                return out
            if r[0] == 'exc':
                violation(out, 'raises:' + type(r[1]).__name__, site, {'stream': who, 'error': repr(r[1])[:200]})
                break
            _, n, b, ok = r
            if n != len(pays[k]):
                violation(out, 'wrong-length', site, {'stream': who, 'returned': int(n), 'payload': len(pays[k])})
                break
            if b.tobytes() != pays[k].tobytes():
                violation(out, 'wrong-bytes', site, {'stream': who, 'first_diff': _firstdiff(b, pays[k])})
                break
            if not ok:
                violation(out, 'write-past-end', site, {'stream': who})
                break
        out['events'].append(['concurrent', len(streams), len(order), sw])
    # ---- end to end through asdf with the io_block_size knob
    if case['mode'] == 'asdf':
        _asdf_roundtrip(case, arr, out)
    if len(chunks) >= 2:
        out['nontrivial'] = [len(frames) if len(frames) < 4 else 4, sorted(classes),
                             sorted(set(types[:max(1, min(len(chunks), 4))])), case['mode'],
                             case['io_block'] if case['mode'] == 'asdf' else None]
    out['steps'] = len(chunks)
    return out


def _interleaved(comp, streams, seed, poison):
    """Several decompress calls in flight on one compressor instance.  Each runs on its own (real) thread that is
    parked before every chunk it pulls; the seeded scheduler releases exactly one at a time, so the order in which the
    streams advance is a function of ``seed`` alone."""
    import random
    import threading
    rng = random.Random(seed)
    K = len(streams)
    go = [threading.Semaphore(0) for _ in range(K)]
    back = threading.Semaphore(0)
    done = [False] * K
    res = [None] * K
    fillv = {'A': 0xFF, 'B': 0x7F}[poison]

    class Stalled(Exception):
        pass

    def park(k):
        back.release()
        if not go[k].acquire(timeout=60):
            raise Stalled()

    def feeder(k, chunks):
        for c in chunks:
            park(k)
            yield c
        park(k)

    def worker(k):
        chunks, nbytes = streams[k]
        if not go[k].acquire(timeout=60):
            return
        try:
            buf = np.full(nbytes + 64, fillv, dtype=np.uint8)
            n = comp.decompress(feeder(k, chunks), memoryview(buf)[:nbytes])
            res[k] = ('ok', n, buf[:nbytes].copy(), bool((buf[nbytes:] == fillv).all()))
        except Stalled:
            res[k] = ('stalled',)
        except Exception as e:        # data for the oracle
            res[k] = ('exc', e)
        done[k] = True
        back.release()

    ths = [threading.Thread(target=worker, args=(k,), daemon=True) for k in range(K)]
    for t in ths:
        t.start()
    alive = list(range(K))
    order = []
    while alive:
        k = rng.choice(alive)
        order.append(k)
        go[k].release()
        if not back.acquire(timeout=60):
            raise RuntimeError('simulated reader %d did not come back' % k)
        if done[k]:
            alive.remove(k)
    for t in ths:
        t.join(timeout=60)
    return res, order


def _firstdiff(a, b):
    a = np.frombuffer(a.tobytes(), np.uint8)
    b = np.frombuffer(b.tobytes(), np.uint8)
    n = min(len(a), len(b))
    d = np.nonzero(a[:n] != b[:n])[0]
    return int(d[0]) if len(d) else n


def _asdf_roundtrip(case, arr, out):
    import asdf
    from simcore import boot
    boot.register_asdf_extension()
    site = 'decompress-asdf'
    d = tempfile.mkdtemp(prefix='c14-')
    fn = os.path.join(d, 'x.asdf')
    try:
        plain = arr if arr.dtype.names is None else arr.view(np.uint32).reshape(-1, 3)
        af = asdf.AsdfFile({'data': {'x': plain}})
        af.write_to(fn, all_array_compression='blsc',
                    compression_kwargs={'compression_block_size': case['cbs']})
        cfg = asdf.get_config()
        old = cfg.io_block_size
        try:
            if case['io_block'] is not None:
                cfg.io_block_size = case['io_block']
            bump(out['faults'], 'io_block_size=%s' % case['io_block'])
            with asdf.open(fn, lazy_load=True, memmap=False) as f:
                got = np.array(f['data']['x'][:])
        finally:
            cfg.io_block_size = old
        if got.shape != plain.shape or got.tobytes() != plain.tobytes():
            violation(out, 'wrong-bytes', site, 'asdf read-back differs (io_block_size=%s)' % case['io_block'])
        out['events'].append(['asdf', int(got.nbytes)])
    except Exception as e:
        violation(out, 'raises:' + type(e).__name__, site, repr(e)[:300])
    finally:
        for f in os.listdir(d):
            os.unlink(os.path.join(d, f))
        os.rmdir(d)


def shrink(case):
    c = dict(case)
    if case.get('reused_buffer'):
        yield dict(c, reused_buffer=False)
    if case.get('concurrent'):
        yield dict(c, concurrent=None)
        oth = case['concurrent']['others']
        if len(oth) > 1:
            for i in range(len(oth)):
                yield dict(c, concurrent=dict(case['concurrent'], others=oth[:i] + oth[i + 1:]))
        for i, o in enumerate(oth):
            if o['nitems'] > 1:
                yield dict(c, concurrent=dict(case['concurrent'], others=oth[:i] + [dict(o, nitems=o['nitems'] // 2)] + oth[i + 1:]))
    if case['mode'] == 'asdf':
        yield dict(c, mode='direct')
    for i in range(len(case['cuts'])):
        yield dict(c, cuts=case['cuts'][:i] + case['cuts'][i + 1:])
    if case['empties']:
        yield dict(c, empties=[])
    if case.get('ones'):
        yield dict(c, ones=False)
    if case['nitems'] > 1:
        yield dict(c, nitems=case['nitems'] // 2)
        yield dict(c, nitems=case['nitems'] - 1)
    if case['pattern'] != 'ramp':
        yield dict(c, pattern='ramp')
    if len(set(case['types'])) > 1:
        yield dict(c, types=['bytes'] * 4)
    if case['itemsize'] != 1:
        yield dict(c, itemsize=1, cbs=max(1, case['cbs'] // case['itemsize']))
