"""C09 -- galaxies follow the HOD threshold rule and inherit their host.

The rule is a function of the inputs, but it is executed by a two-pass threaded
kernel whose per-thread offsets decide *which host a row is copied from*; so the
oracles below are evaluated on the output of a simulated (Nthread, assignment,
interleaving).  The input dimension is plain generation (said in DESIGN.md).

Oracle: an executable reference model (props/hodcommon.Model) that stacks the
package's own mean-occupation functions (their py_func) in the order LRG, ELG,
QSO, times incompleteness and multiplicity / weight, and applies the documented
velocity-bias and RSD formulas.  Hosts whose stored random lies within 4 ulps
of a slice edge may go either way.  Two metamorphic relations are evaluated as
well: selections are nested as incompleteness grows, and enabling a later tracer
never changes earlier ones.
"""
import copy

import numpy as np

from simcore.core import new_outcome, violation, bump
from . import hodcommon as HC
from . import hodrun as HR

PID = 'C09'
QUICK_RUNS = 3000
QUICK_SECONDS = 150
THOROUGH_SECONDS = 900
CASE_TIMEOUT = 600
SHRINK_SECONDS = 120
LEVEL = 'exploration'
RULE = ('case = (halo / particle tables with masses around the cuts, randoms incl. 0, 1 and values placed on slice edges '
        '+-k ulps, tracer subset, HOD parameters incl. assembly bias / conformity / ranks / velocity bias / ic, RSD, box or '
        'light-cone observer, Nthread, schedule config). non-trivial = at least one galaxy produced and one host rejected; '
        'distinct = distinct (tracers, H bucket, P bucket, rsd, lightcone, ranks, AB, shear, Nthread, edge hosts present)')
COMPONENTS = {'real': ['hod/GRAND_HOD.py gen_gal_cat / gen_gals (as is), gen_cent, gen_sats, fast_concatenate as cooperative '
                       'generators; mean-occupation functions as py_func (shared with the reference, by the property text); '
                       'compiled kernels at the thorough tier'],
              'stub': ['numba thread pool and scheduler; numba.typed.Dict']}
ASSUMPTIONS = ['the mean-occupation functions themselves are taken from the package (the property defines slice widths as '
               '"the package\'s mean-occupation functions"); the stacking, thresholds, host attributes, velocity bias, RSD '
               'and ordering are modelled independently',
               'a host whose random is within 4 ulps of a marker may go either way']


def gen(rng, tier):
    from e1_threads.harness import gen_sched
    c = HC.gen_tables(rng, tier, max_h=200, max_p=400) if (tier == 'thorough' and rng.random() < 0.3) else HC.gen_tables(rng, tier)
    c['Nthread'] = rng.choice([1, 2, 3, 4, 8, 16])
    if c['origin'] is not None:
        # a galaxy exactly on the observer has no line of sight (0/0 -> NaN positions, in the package and in the model):
        # outside what C09 states; kept for C10, whose bitwise comparison between thread counts is indifferent to it
        for obj in c['halos'] + c['parts']:
            if obj['pos'] == c['origin']:
                obj['pos'] = [obj['pos'][0] + 1.0, obj['pos'][1], obj['pos'][2]]
    c['sched'] = gen_sched(rng)
    c['ic_scale'] = rng.choice([0.3, 0.5, 0.9])
    # a history: the same tracer dictionaries are re-used for a second call after in-place parameter
    # updates (the run_hod fitting-loop pattern)
    upd = {}
    for t in c['tracers']:
        if rng.random() < 0.7:
            key = rng.choice(['logM1', 'alpha', 'logM_cut', 'sigma', 'alpha_s', 'ic'])
            new = {'logM1': rng.uniform(12.0, 14.2), 'alpha': rng.uniform(0.5, 1.5), 'logM_cut': rng.uniform(12.0, 13.6),
                   'sigma': rng.uniform(0.15, 0.9), 'alpha_s': rng.uniform(0.5, 1.5), 'ic': rng.uniform(0.2, 1.0)}[key]
            upd[t] = {key: new}
        if rng.random() < 0.4:
            # ... or an optional key given in the first call is left out in the second (its default applies again)
            opt = [k for k in ('ic', 'Acent', 'Asat', 'Bcent', 'Bsat', 'Ccent', 'Csat') if k in c['tracers'][t]]
            if opt:
                upd.setdefault(t, {})[rng.choice(opt)] = None
    c['second_call'] = upd
    c['compiled'] = (tier == 'thorough' and rng.random() < 0.05)
    return c


def warmup():
    import abx_sim.hod.GRAND_HOD  # noqa: F401


def _check_against_model(out, site, c, res, occ):
    m = HC.Model(c, occ)
    cents, sats, _ = m.expected()
    if m.conformity_flips and site.endswith('[sim]'):
        bump(out['probes'], 'conformity-decides-a-satellite', m.conformity_flips)
    if set(res) != set(c['tracers']):
        violation(out, 'tracer-set', site, 'got %s expected %s' % (sorted(res), sorted(c['tracers'])))
        return
    for t in c['tracers']:
        d = res[t]
        n = len(d['x'])
        for col in HC.COLS:
            if len(d[col]) != n:
                violation(out, 'ragged-columns', site, {'tracer': t, 'column': col})
                return
        bad = HC.match(d, d['Ncent'], cents[t], sats[t])
        if bad:
            kind = 'rule-or-host-mismatch'
            violation(out, kind, site, dict(bad, tracer=t, Ncent=d['Ncent'], rows=n))
            return


def _ids(res, t, part):
    d = res[t]
    nc = d['Ncent']
    sl = slice(0, nc) if part == 'cent' else slice(nc, None)
    return list(zip(np.asarray(d['id'])[sl].tolist(), np.round(np.asarray(d['x'])[sl], 9).tolist(),
                    np.round(np.asarray(d['y'])[sl], 9).tolist()))


def run(case):
    from abx_sim.hod import GRAND_HOD as G
    from e1_threads import harness as H
    from e1_threads.sched import SIM
    out = new_outcome()
    c = HR.prepare(case)
    occ = HR.occ_of(G)
    s = case['sched']
    T = case['Nthread']
    site = 'gen_gal_cat[sim]'

    def sim(cc, sched_cfg):
        res, exc, summ = H.run(lambda: HR.flatten(HR.call(G, cc, T)), sched_cfg)
        if SIM.oob_events:
            violation(out, 'oob', (SIM.oob_events[0]['region'] or site).split('#')[0], SIM.oob_events[0])
            return None, summ
        if exc is not None:
            violation(out, 'raises:' + type(exc).__name__, site, repr(exc)[:300])
            return None, summ
        return res, summ

    res, summ = sim(c, s)
    if res is None:
        return out
    out['steps'] = summ['steps']
    _check_against_model(out, site, c, res, occ)
    if out['violations']:
        return out
    ngal = sum(len(v['x']) for v in res.values())
    nhost = len(c['halos']) + len(c['parts'])
    bump(out['faults'], 'policy=' + s.get('policy', 'static'))
    bump(out['faults'], 'strategy=' + s.get('strategy', 'serial'))
    bump(out['faults'], 'context-switches', summ['switches'])
    edge_hosts = sum(1 for h in case['halos'] if h.get('edge')) + sum(1 for p in case['parts'] if p.get('edge'))
    if edge_hosts:
        bump(out['probes'], 'random-on-slice-edge', edge_hosts)
    if any(h['random'] == 0.0 for h in c['halos']):
        bump(out['probes'], 'random=0')
    if c['origin'] is not None and c['rsd']:
        bump(out['probes'], 'lightcone-rsd')
    # ---- metamorphic 1: nested in ic (same randoms, smaller ic => subset, for every tracer)
    c2 = copy.deepcopy(c)
    for t in c2['tracers']:
        c2['tracers'][t]['ic'] = c2['tracers'][t].get('ic', 1.0) * case['ic_scale']
    m1 = HC.Model(c, occ).expected()
    if not m1[2]:
        res2, _ = sim(c2, dict(s, seed=s.get('seed', 0) + 1))
        if res2 is None:
            return out
        first = sorted(c['tracers'], key=['LRG', 'ELG', 'QSO'].index)[0]
        # only the first enabled tracer's slice starts at 0, so only it is nested for certain
        a, b = set(_ids(res2, first, 'cent')), set(_ids(res, first, 'cent'))
        if not a <= b:
            violation(out, 'not-nested-in-ic', site, {'tracer': first, 'extra': sorted(a - b)[:3]})
            return out
        _check_against_model(out, site + ':ic-scaled', c2, res2, occ)
        if out['violations']:
            return out
    # ---- metamorphic 2: enabling a later tracer leaves earlier ones unchanged
    order = ['LRG', 'ELG', 'QSO']
    present = [t for t in order if t in c['tracers']]
    if len(present) >= 2:
        c3 = copy.deepcopy(c)
        last = present[-1]
        del c3['tracers'][last]
        res3, _ = sim(c3, dict(s, seed=s.get('seed', 0) + 2))
        if res3 is None:
            return out
        # conformity makes ELG satellites depend on centrals of *earlier* tracers only, so this holds for sats too
        for t in present[:-1]:
            d = HR.same_bits({t: res[t]}, {t: res3[t]})
            if d:
                violation(out, 'later-tracer-changes-earlier', site, {'removed': last, 'diff': d})
                return out
    # ---- history: two calls on the *same* tracer dictionaries with in-place updates in between
    if case.get('second_call'):
        shared = {t: dict(c['tracers'][t]) for t in HR.tracer_order(c)}
        # ... and on the same halo / particle arrays and parameter dictionary (a fitting loop builds them once)
        inputs = HC.build_inputs(c)
        resA, excA, _ = H.run(lambda: HR.flatten(HR.call(G, c, T, tracers=shared, inputs=inputs)), dict(s, seed=s.get('seed', 0) + 3))
        if excA is not None:
            violation(out, 'raises:' + type(excA).__name__, site + ':first-call', repr(excA)[:300])
            return out
        c4 = copy.deepcopy(c)
        for t, kv in case['second_call'].items():
            if t in shared:
                for k_, v_ in kv.items():
                    if v_ is None:
                        shared[t].pop(k_, None)
                        c4['tracers'][t].pop(k_, None)
                    else:
                        shared[t][k_] = v_
                        c4['tracers'][t][k_] = v_
        resB, excB, _ = H.run(lambda: HR.flatten(HR.call(G, c4, T, tracers=shared, inputs=inputs)), dict(s, seed=s.get('seed', 0) + 4))
        if excB is not None:
            violation(out, 'raises:' + type(excB).__name__, site + ':second-call', repr(excB)[:300])
            return out
        _check_against_model(out, site + ':second-call-after-in-place-update', c4, resB, occ)
        if out['violations']:
            return out
        bump(out['faults'], 'tracer-dict-reused-after-in-place-update')
    out['events'].append(['cat', len(c['halos']), len(c['parts']), sorted(c['tracers']), T, ngal])
    if case.get('compiled'):
        _compiled(case, c, out, occ)
    if ngal > 0 and ngal < nhost:
        out['nontrivial'] = [sorted(c['tracers']), min(len(c['halos']), 40) // 8, min(len(c['parts']), 80) // 16, c['rsd'],
                             c['origin'] is not None, c['enable_ranks'], c['want_AB'], c['want_shear'], T, edge_hosts > 0]
    return out


def _compiled(case, c, out, occ):
    from abacusnbody.hod import GRAND_HOD as RG
    # The slice markers of the model are computed with the interpreted occupation functions; the compiled ones
    # (LLVM erfc / pow) differ from them by a few 1e-16 relative, more than the 4..8 ulps at which "edge" hosts are
    # placed.  The compiled cross-check therefore runs on the same case without hosts pinned to the markers.
    plain = copy.deepcopy(case)
    for obj in plain['halos'] + plain['parts']:
        obj['edge'] = None
    c = HR.prepare(plain)
    try:
        res = HR.flatten({t: dict(v) for t, v in HR.call(RG, c, case['Nthread']).items()})
    except Exception as e:
        violation(out, 'raises:' + type(e).__name__, 'gen_gal_cat[compiled]', repr(e)[:300])
        return
    bump(out['probes'], 'compiled-crosscheck')
    _check_against_model(out, 'gen_gal_cat[compiled]', c, res, occ)


def shrink(case):
    from .c10 import shrink as s10
    c = dict(case)
    c.setdefault('search', {'a': [], 'b': [], 'nb': 0})
    for cand in s10(c):
        cand = dict(cand)
        yield cand
    for i, h in enumerate(case['halos']):
        if h.get('edge'):
            hs = [dict(x) for x in case['halos']]
            hs[i]['edge'] = None
            yield dict(case, halos=hs)
