"""C03 -- superslab concatenation and filter_func commute with loading.

Engine E2 (same world / writer / knobs as C01).  Per case several loads of the
same world: the combined load (directory or file list in a seeded order), each
file alone, the filtered load and the unfiltered load.  Oracles: the world model
(rows and per-halo particle serial lists), combined == concatenation of the
single-file loads, filtered == mask applied to the unfiltered load, duplicate
and mixed-catalogue file lists are rejected.
"""
import copy
import os
import shutil

import numpy as np

from simcore.core import new_outcome, violation, bump

PID = 'C03'
QUICK_RUNS = 260
QUICK_SECONDS = 160
THOROUGH_SECONDS = 900
CASE_TIMEOUT = 300
SHRINK_SECONDS = 120
LEVEL = 'exploration'
RULE = ('case = (world as in C01; file subset and order; filter: by id set / by N threshold (cleaned: N_total under the name '
        'N) / keep-all / keep-none / keep-none-in-one-slab / none; cleaned; subsample selection; field subset; knobs). '
        'non-trivial = >= 2 files loaded or a filter that removes at least one but not all rows; distinct = distinct '
        '(files, order sorted?, filter kind, kept fraction bucket, cleaned, AB, subsample columns, fields kind, path kind)')
COMPONENTS = {'real': ['data/compaso_halo_catalog.py: _setup_file_paths, _read_halo_info (in-place compaction, truncation), '
                       '_load_subsamples (halo_file_offsets), util.cumsum; asdf, astropy real'],
              'stub': ['Abacus simulation output (stub writer)', 'blosc codec']}
ASSUMPTIONS = ['comparisons are by particle serial lists, not raw npstart values',
               'ndarray.resize moving the buffer during truncation cannot be forced from Python and is not explored']

INDEX_COLS = {'npstartA', 'npstartB', 'npoutA', 'npoutB', 'npstartA_merge', 'npstartB_merge', 'npoutA_merge', 'npoutB_merge'}


def gen(rng, tier):
    from e2_world import world as W
    from e2_world import catalog as C
    big = tier == 'thorough' and rng.random() < 0.5
    lc = rng.random() < 0.1
    world = W.gen_world(rng, max_slabs=6 if big else 4, max_halos=12 if big else 6, max_parts=8 if big else 4, lc=lc)
    bigspec = None
    if rng.random() < 0.025 and not lc:
        # a large catalogue, carried as its generator call (slabs of thousands of halos)
        counts = [rng.choice([4096, 4097, 5000, 8192]) for _ in range(rng.randrange(1, 3))]
        bigspec = {'gen': {'seed': rng.randrange(1 << 30), 'kwargs': {'halo_counts': counts, 'max_parts': 1,
                                                                      'want_clean': rng.random() < 0.5}}}
        world = W.materialize(bigspec)
    inds = [s['index'] for s in world['slabs']]
    kind = rng.choice(['zdir', 'list', 'list', 'list'])
    order = list(inds)
    if kind == 'list':
        order = rng.sample(inds, rng.randrange(1, len(inds) + 1))
    cleaned = bool(world['cleaned'] and rng.random() < 0.7)
    ab = rng.choice([[], ['A'], ['B'], ['A', 'B']])
    if lc:
        ab = rng.choice([[], ['A']])
        kind = 'zdir'
        order = list(inds)
    cols = rng.choice([['pos', 'vel', 'pid'], ['pid'], ['pos'], ['rv']])
    sub = {k: True for k in ab + cols} if ab else False
    allh = [h for s in world['slabs'] for h in s['halos']]
    fkind = rng.choice(['none', 'ids', 'ids', 'N', 'N', 'all', 'nothing', 'nothing-in-one-slab', 'idmod'])
    if bigspec:
        fkind = rng.choice(['idmod', 'idmod', 'N', 'nothing-in-one-slab'])
    filt = {'kind': fkind}
    if fkind == 'idmod':
        filt['m'] = rng.choice([2, 3, 7])
        filt['r'] = rng.randrange(filt['m'])
    if fkind == 'ids':
        filt['ids'] = sorted(h['raw']['id'] for h in allh if rng.random() < 0.5)
    elif fkind == 'N':
        ns = sorted((h['clean']['N_total'] if cleaned else h['raw']['N']) for h in allh) or [0]
        filt['thr'] = rng.choice(ns) + rng.choice([0, 1])
    elif fkind == 'nothing-in-one-slab':
        filt['slab'] = rng.choice(order)
    fields = rng.choice(['DEFAULT_FIELDS', 'all', ['id', 'N'], ['id', 'N', 'x_com', 'r50_L2com']])
    if lc:
        fields = rng.choice(['DEFAULT_FIELDS', 'all', ['index_halo', 'N'], ['index_halo', 'N', 'x_L2com', 'r50_L2com']])
        if fkind == 'ids':
            filt = {'kind': 'lcids', 'ids': sorted(h['raw']['index_halo'] for h in allh if rng.random() < 0.5)}
    if bigspec:
        world = bigspec
    return {'world': world, 'knobs': C.gen_knobs(rng), 'path': {'kind': kind, 'order': order, 'as_path': rng.random() < 0.5},
            'cleaned': cleaned, 'subsamples': sub, 'AB': ab, 'filter': filt, 'fields': fields,
            'negative': None if lc else rng.choice([None, None, 'duplicate', 'mixed']),
            'sub_order': rng.randrange(1 << 20) if rng.random() < 0.5 else None}


def _keep_model(world, case):
    """slab index -> list of booleans, from the world model."""
    f = case['filter']
    keep = {}
    for s in world['slabs']:
        row = []
        for h in s['halos']:
            n = h['clean']['N_total'] if (case['cleaned'] and not world.get('lc')) else h['raw']['N']
            if f['kind'] in ('none', 'all'):
                k = True
            elif f['kind'] == 'idmod':
                k = h['raw']['index_halo' if world.get('lc') else 'id'] % f['m'] == f['r']
            elif f['kind'] == 'ids':
                k = h['raw']['id'] in f['ids']
            elif f['kind'] == 'lcids':
                k = h['raw']['index_halo'] in f['ids']
            elif f['kind'] == 'N':
                k = n >= f['thr']
            elif f['kind'] == 'nothing':
                k = False
            else:
                k = s['index'] != f['slab']
            row.append(k)
        keep[s['index']] = row
    return keep


def _filter_func(case, world):
    f = case['filter']
    if f['kind'] == 'none':
        return None
    if f['kind'] == 'all':
        return lambda h: np.ones(len(h), dtype=bool)
    if f['kind'] == 'ids':
        ids = np.array(f['ids'], dtype=np.uint64)
        return lambda h: np.isin(np.asarray(h['id']), ids)
    if f['kind'] == 'idmod':
        col = 'index_halo' if world.get('lc') else 'id'
        return lambda h: (np.asarray(h[col]).astype(np.uint64) % np.uint64(f['m'])) == np.uint64(f['r'])
    if f['kind'] == 'lcids':
        ids = np.array(f['ids'], dtype=np.int64)
        return lambda h: np.isin(np.asarray(h['index_halo']), ids)
    if f['kind'] == 'N':
        return lambda h: np.asarray(h['N']) >= f['thr']
    if f['kind'] == 'nothing':
        return lambda h: np.zeros(len(h), dtype=bool)
    slab = next(s for s in world['slabs'] if s['index'] == f['slab'])
    if world.get('lc'):
        return lambda h: np.zeros(len(h), dtype=bool)
    bad = np.array([h['raw']['id'] for h in slab['halos']], dtype=np.uint64)
    return lambda h: ~np.isin(np.asarray(h['id']), bad)


def _cmp_tables(a, b, what, skip=INDEX_COLS):
    """None if equal column by column (bitwise), else description."""
    if a.colnames != b.colnames and set(a.colnames) != set(b.colnames):
        return '%s: column sets differ: %s' % (what, sorted(set(a.colnames) ^ set(b.colnames)))
    if len(a) != len(b):
        return '%s: %d rows vs %d rows' % (what, len(a), len(b))
    for c in a.colnames:
        if c in skip:
            continue
        x, y = np.asarray(a[c]), np.asarray(b[c])
        if x.shape != y.shape or x.dtype != y.dtype or x.tobytes() != y.tobytes():
            return '%s: column %s differs' % (what, c)
    return None


def run(case):
    from astropy.table import vstack
    from e2_world import world as W
    from e2_world import catalog as C
    out = new_outcome()
    world, knobs = W.materialize(case['world']), case['knobs']
    big = 'gen' in case['world']
    if big:
        knobs = dict(knobs, prelude_seed=None, compression=None if knobs.get('cbs', 0) < 1024 else knobs.get('compression'))
        bump(out['probes'], 'large-catalogue')
    with C.scratch() as root:
        gd, written = W.write_world(world, root, knobs)
        C.prelude(world, knobs, root, out['faults'])
        C.failed_loads_before(gd, knobs, out['faults'])
        arg, order = C.path_argument(world, gd, case['path'])
        lc = bool(world.get('lc'))
        kw = dict(cleaned=case['cleaned'] or lc, subsamples=C.subsamples_argument(case), fields=copy.deepcopy(case['fields']))
        # the index columns needed for subsamples are added automatically only for cleaned loads (that is C02's
        # business); keep C03 independent of it by requesting them explicitly for field subsets
        idcol = 'index_halo' if world.get('lc') else 'id'
        if isinstance(kw['fields'], list) and case['filter']['kind'] == 'idmod' and idcol not in kw['fields']:
            kw['fields'].append(idcol)
        if isinstance(kw['fields'], list) and case['AB']:
            for AB in case['AB']:
                kw['fields'] += ['npstart' + AB, 'npout' + AB]
        site = 'CompaSOHaloCatalog'

        def load(a, ff=None, tag=''):
            try:
                with C.environment(knobs, out['faults'] if not tag else None):
                    return C.load(a, filter_func=ff, **copy.deepcopy(kw))
            except Exception as e:
                violation(out, 'raises:' + type(e).__name__, site + tag, repr(e)[:400])
                return None

        # ---- unfiltered combined load vs world model
        U = load(arg)
        if U is None:
            return out
        rows = W.expected_particles(world, order, case['cleaned'] and not lc, case['AB'])
        if len(U.halos) != len(rows):
            violation(out, 'row-count', site, 'combined load has %d rows, the files hold %d halos' % (len(U.halos), len(rows)))
            return out
        ids = [h['raw']['id'] for i in order for h in W._slabs(world, [i])[0]['halos']]
        if 'id' in U.halos.colnames and np.asarray(U.halos['id']).tolist() != ids:
            violation(out, 'row-order', site, 'halo ids are not the concatenation of the files in order')
            return out
        if case['AB']:
            bad = C.check_lc_subsamples(U, world) if lc else C.check_subsamples(U, world, rows, case['AB'])
            if bad:
                violation(out, bad[0], site + '.subsamples', bad[1])
                return out
        # ---- each file alone; combined == concatenation
        if len(order) > 1 and not big:
            singles = []
            for i in order:
                s_arg, _ = C.path_argument(world, gd, {'kind': 'file', 'order': [i]})
                S = load(s_arg, tag='[single]')
                if S is None:
                    return out
                srows = W.expected_particles(world, [i], case['cleaned'], case['AB'])
                if case['AB']:
                    bad = C.check_subsamples(S, world, srows, case['AB'])
                    if bad:
                        violation(out, bad[0], site + '[single].subsamples', bad[1])
                        return out
                singles.append(S.halos)
            try:
                cat = vstack(singles, metadata_conflicts='silent') if singles else None
            except Exception as e:
                violation(out, 'single-loads-not-stackable', site, repr(e)[:200])
                return out
            d = _cmp_tables(U.halos, cat, 'combined vs concatenated single-file loads',
                            skip={'npstartA', 'npstartB'})
            if d:
                violation(out, 'concatenation-differs', site, d)
                return out
            bump(out['probes'], 'multi-file-concatenation')
        # ---- filtered load
        frows = rows
        ff = _filter_func(case, world)
        if ff is not None:
            keep = _keep_model(world, case)
            F = load(arg, ff, tag='[filtered]')
            if F is None:
                return out
            frows = W.expected_particles(world, order, case['cleaned'] and not lc, case['AB'], keep=keep)
            if len(F.halos) != len(frows):
                violation(out, 'filtered-row-count', site + '[filtered]', 'got %d rows, mask keeps %d' % (len(F.halos), len(frows)))
                return out
            mask = np.asarray(ff(U.halos), dtype=bool)
            d = _cmp_tables(F.halos, U.halos[mask], 'filtered load vs mask applied to the unfiltered load',
                            skip={'npstartA', 'npstartB'})
            if d:
                violation(out, 'filter-does-not-commute', site + '[filtered]', d)
                return out
            if case['AB'] and lc:
                bad = C.check_lc_subsamples(F, world, keep=keep[order[0]])
                if bad:
                    violation(out, bad[0], site + '[filtered].subsamples', bad[1])
                    return out
            elif case['AB']:
                bad = C.check_subsamples(F, world, frows, case['AB'])
                if bad:
                    violation(out, bad[0], site + '[filtered].subsamples', bad[1])
                    return out
            kept = len(frows)
            bump(out['probes'], 'filter:' + case['filter']['kind'])
            if kept == 0:
                bump(out['probes'], 'filter-keeps-nothing')
            any_empty_slab = any(not any(keep[i]) and len(keep[i]) for i in order)
            if any_empty_slab and kept:
                bump(out['probes'], 'filter-empties-one-slab')
        # ---- rejected inputs
        if case['negative'] == 'duplicate' and order:
            dup, _ = C.path_argument(world, gd, {'kind': 'list', 'order': order + [order[0]]})
            try:
                with C.environment(knobs):
                    C.load(dup, **copy.deepcopy(kw))
                violation(out, 'duplicate-files-accepted', site, 'a file list with a repeated halo_info file was loaded')
            except ValueError:
                bump(out['probes'], 'duplicate-rejected')
            except Exception as e:
                violation(out, 'raises:' + type(e).__name__, site + '[duplicate]', repr(e)[:300])
        if case['negative'] == 'mixed' and order:
            other = os.path.join(root, 'OtherSim', 'halos', 'z0.500', 'halo_info')
            os.makedirs(other, exist_ok=True)
            src = os.path.join(gd, 'halo_info', 'halo_info_%03d.asdf' % order[0])
            shutil.copy(src, os.path.join(other, 'halo_info_%03d.asdf' % (order[0] + 1)))
            mix = [src, os.path.join(other, 'halo_info_%03d.asdf' % (order[0] + 1))]
            try:
                with C.environment(knobs):
                    C.load(mix, cleaned=False, subsamples=False, fields=['id'])
                violation(out, 'mixed-catalogues-accepted', site, 'files from two catalogues were loaded together')
            except ValueError:
                bump(out['probes'], 'mixed-rejected')
            except Exception as e:
                violation(out, 'raises:' + type(e).__name__, site + '[mixed]', repr(e)[:300])
    kept_frac = None
    if ff is not None and len(rows):
        kept_frac = round(3 * len(frows) / len(rows))
    out['events'].append(['load', order, len(rows), case['filter']['kind'], kept_frac])
    out['steps'] = len(written)
    partial = ff is not None and 0 < len(frows) < len(rows)
    if len(order) >= 2 or partial:
        out['nontrivial'] = [len(order), order == sorted(order), case['filter']['kind'], kept_frac, case['cleaned'],
                             case['AB'], sorted(k for k in case['subsamples'] if k not in 'AB') if case['subsamples'] else None,
                             case['fields'] if isinstance(case['fields'], str) else 'subset', case['path']['kind']]
    return out


def shrink(case):
    from .c01 import shrink as s01
    if 'gen' in case['world']:
        if case['negative']:
            yield dict(case, negative=None)
        if case['AB']:
            yield dict(case, AB=[], subsamples=False)
        return
    base = dict(case)
    base.setdefault('unpack_bits', False)
    base.setdefault('passthrough', False)
    for cand in s01(base):
        c = dict(cand)
        if isinstance(c.get('subsamples'), dict) and not [k for k in c['subsamples'] if k in 'AB']:
            continue
        yield c
    if case['filter']['kind'] != 'none':
        yield dict(case, filter={'kind': 'none'})
    if case['negative']:
        yield dict(case, negative=None)
    if case['fields'] != 'DEFAULT_FIELDS':
        yield dict(case, fields='DEFAULT_FIELDS')
    if case['AB']:
        yield dict(case, AB=[], subsamples=False)
