"""C11 -- compiled kernels never access memory outside their arrays.

Seam S3: an out-of-bounds read in nopython code returns whatever the heap
holds, an out-of-bounds write corrupts a neighbour silently.  Three engines:

* E3 arena: the real compiled serial kernels run on arrays carved out of a
  poisoned arena with canary guard zones, under two fills (e3_arena.kernels);
* bounds-check child: the same calls in a process started with
  NUMBA_BOUNDSCHECK=1, where numba itself raises IndexError;
* E1: the parallel kernels (whose internal accumulators are not reachable by
  the arena) run as cooperative generators on bounds-checked tracked arrays;
  here the boundary-biased generators of C06/C07/C08/C10/C13/C17 are re-used
  and only out-of-bounds events are looked at.
"""
import copy
import random

import numpy as np

from simcore.core import new_outcome, violation, bump

PID = 'C11'
QUICK_RUNS = 520
QUICK_SECONDS = 170
THOROUGH_SECONDS = 900
CASE_TIMEOUT = 900
SHRINK_SECONDS = 90
LEVEL = 'exploration'
RULE = ('case = one kernel invocation with precondition-satisfying, boundary-biased inputs: arena kinds (cumsum, RVint / PID / '
        'pack9 decoders, subsample zipper, cic_serial, _tsc_scatter, tsc_parallel single-thread, linear_interp, P_n), '
        'simulated kinds (TSC/partition, binning, calc_power kernels, HOD passes, concatenate, expand_poles_to_3d, '
        'get_smoothing, get_delta_mu2) and one NUMBA_BOUNDSCHECK batch per 40 arena cases. sweep (complete, arena and '
        'bounds-check child): linear_interp on 6 sizes x 3 origins x 3 spacings x arange/linspace float32 grids one '
        'rounding step inside each end; RVint and PID decoders over every (length, requested-output subset, dtype, '
        'oversized output); cic_serial / _tsc_scatter / tsc_parallel(nthread=1) over every grid shape of the family x '
        'offset x dtype x weights with one particle per combination of 7 boundary coordinates per axis. '
        'non-trivial = every case; '
        'distinct = distinct (kernel, boundary class tuple)')
COMPONENTS = {'real': ['every @njit kernel of util, bitpacked, pack9, compaso_halo_catalog, tsc, cic, power_spectrum, GRAND_HOD '
                       '(serial ones compiled; parallel ones from the same source as cooperative generators)'],
              'stub': ['numba thread pool (simulated runs)']}
ASSUMPTIONS = ['preconditions per kernel as listed in DESIGN.md Appendix A; inputs outside them are never generated',
               'gen_sats_nfw / compute_fast_NFW / getPointsOnSphere draw from numba per-thread RNG state and are not executed',
               'the bounds-check child covers serial kernels only (numba does not bounds-check inside parfors)']

SIM_PROPS = ['c06', 'c07', 'c08', 'c10', 'c13', 'c17']


def gen(rng, tier):
    from e3_arena import kernels as K
    r = rng.random()
    if r < 0.55:
        name = rng.choice(sorted(K.KERNELS))
        return {'kind': 'arena', 'kernel': name, 'args': K.KERNELS[name][0](rng)}
    if r < 0.60:
        cases = []
        for _ in range(40):
            name = rng.choice(sorted(K.KERNELS))
            cases.append({'kernel': name, 'args': K.KERNELS[name][0](rng)})
        return {'kind': 'bc', 'cases': cases}
    if r < 0.70:
        n = rng.choice([1, 2, 3, 4, 5])
        return {'kind': 'simps', 'n': n, 'L': rng.choice([1.0, 100.0]), 'T': rng.choice([1, 2, 16]),
                'poles': rng.choice([[0], [0, 2], [0, 2, 4]]), 'nk': rng.choice([2, 3, 6]),
                'sched': {'policy': rng.choice(['static', 'cyclic']), 'strategy': 'serial', 'seed': rng.randrange(1 << 20)}}
    p = rng.choice(SIM_PROPS)
    import importlib
    mod = importlib.import_module('props.' + p)
    return {'kind': 'sim', 'prop': p, 'case': mod.gen(rng, tier)}


def sweep(tier):
    """Complete over the interpolation grids (one bounds-check batch, and every grid in the arena)."""
    from e3_arena import kernels as K
    cs = list(K.all_interp())
    yield {'kind': 'bc', 'cases': [{'kernel': 'power_spectrum.linear_interp', 'args': a} for a in cs]}
    for a in cs:
        if a['where'] == 'ulp-below-last':
            yield {'kind': 'arena', 'kernel': 'power_spectrum.linear_interp', 'args': a}
    for name, allf in (('bitpacked._unpack_rvint', K.all_rvint), ('bitpacked._unpack_pids', K.all_pids)):
        al = list(allf())
        yield {'kind': 'bc', 'cases': [{'kernel': name, 'args': a} for a in al]}
        for a in al:
            yield {'kind': 'arena', 'kernel': name, 'args': a}
    # long cumulative sums (a blocked / threaded fast path would start at some length): around 2^16 and 2^20
    from props import c19
    for n in (65535, 65536, 65537, (1 << 20) - 1, 1 << 20, (1 << 20) + 1):
        for initial in (False, True):
            for final in (False, True):
                for T in (1, 16):
                    a = dict(c19._case(n, initial, final, 0, ('i8', 'i8')), threads=T)
                    yield {'kind': 'arena', 'kernel': 'util.cumsum', 'args': a, 'arena_bytes': 36 * n + (1 << 16)}
    gs = list(K.all_grid())
    for i in range(0, len(gs), 60):
        yield {'kind': 'bc', 'cases': [{'kernel': K.GRID_KERNEL[g['kind']], 'args': g} for g in gs[i:i + 60]]}
    for g in gs:
        if g['dtype'] == 'f4' and g['weights']:
            yield {'kind': 'arena', 'kernel': K.GRID_KERNEL[g['kind']], 'args': g}


def kernel_call(case, arena):
    """Entry point for the bounds-check child."""
    from e3_arena import kernels as K
    return K.KERNELS[case['kernel']][1](case['args'], arena)


def _boundary_key(args):
    keys = []
    for k in ('n', 'style', 'where', 'shape', 'cleaned', 'which', 'kind', 'initial', 'final', 'offset'):
        if k in args:
            v = args[k]
            keys.append((k, min(v, 3) if isinstance(v, int) and not isinstance(v, bool) else (tuple(v) if isinstance(v, list) else v)))
    return keys


def run(case):
    out = new_outcome()
    kind = case['kind']
    if kind == 'arena':
        from e3_arena import arena as A
        from e3_arena import kernels as K
        name = case['kernel']
        fn = K.KERNELS[name][1]
        ra, rb, da, db, exc = A.two_fills(lambda ar: fn(case['args'], ar), nbytes=case.get('arena_bytes', 1 << 20))
        bump(out['faults'], 'arena-two-fills')
        bump(out['probes'], 'kernel:' + name)
        if exc is not None:
            violation(out, 'raises:' + type(exc).__name__, name, {'args': _short(case['args']), 'error': repr(exc)[:300]})
            return out
        if da or db:
            violation(out, 'write-outside-arrays', name, {'args': _short(case['args']), 'damaged': (da or db)[:2]})
            return out
        if not A.same(ra, rb):
            violation(out, 'depends-on-memory-outside-arrays', name, {'args': _short(case['args'])})
            return out
        out['events'].append([name, _boundary_key(case['args'])])
        out['nontrivial'] = [name, _boundary_key(case['args'])]
        out['steps'] = 2
        return out
    if kind == 'bc':
        from e3_arena import bc
        res, err = bc.run_child('c11', case['cases'])
        if res is None:
            if 'signal' in (err or ''):
                violation(out, 'crash', 'boundscheck-child', err)
            else:
                out['harness'] = err
            return out
        bump(out['faults'], 'NUMBA_BOUNDSCHECK-child-calls', len(res))
        for c, r in zip(case['cases'], res):
            if r is not None and r['type'] == 'IndexError':
                violation(out, 'out-of-bounds-index', c['kernel'] + '[boundscheck]', {'args': _short(c['args']), 'error': r['msg']})
                return out
            if r is not None:
                violation(out, 'raises:' + r['type'], c['kernel'] + '[boundscheck]', {'args': _short(c['args']), 'error': r['msg']})
                return out
        out['events'].append(['bc', len(res)])
        out['nontrivial'] = ['bc', sorted({c['kernel'] for c in case['cases']})]
        return out
    if kind == 'simps':
        return _sim_power_kernels(case, out)
    # ---- delegated simulated runs: only memory-safety events count here
    import importlib
    mod = importlib.import_module('props.' + case['prop'])
    sub = mod.run(case['case'])
    if sub.get('harness'):
        out['harness'] = sub['harness']
        return out
    for v in sub['violations']:
        if v['kind'] == 'oob' or v['kind'] == 'raises:IndexError' or v['kind'] == 'write-outside-arrays':
            violation(out, 'oob' if v['kind'] != 'raises:IndexError' else 'raises:IndexError', v['site'], v['detail'])
            break
    out['steps'] = sub.get('steps', 0)
    for k, n in sub['faults'].items():
        bump(out['faults'], k, n)
    bump(out['probes'], 'sim:' + case['prop'])
    out['events'].append(['sim', case['prop'], sub['digest'] if sub.get('digest') else None])
    out['nontrivial'] = ['sim', case['prop'], sub.get('nontrivial')]
    return out


def _sim_power_kernels(case, out):
    """Parallel power-spectrum kernels not reached by the other properties'
    generators, on meshes 1..5 (odd and even)."""
    from abx_sim.analysis import power_spectrum as ps
    from e1_threads import harness as H
    from e1_threads.sched import SIM
    n, L, T = case['n'], case['L'], case['T']
    r = np.random.default_rng(n * 7 + T)
    kz = n // 2 + 1

    def body():
        SIM.set_num_threads(T)
        res = []
        res.append(ps.get_smoothing(n, L, 0.3))
        delta = (r.random((n, n, kz)) + 1j * r.random((n, n, kz))).astype(np.complex64)
        res.append(ps.get_delta_mu2(delta, n))
        nk = case['nk']
        k_ell = np.linspace(0.0, np.pi * n / L * 2, nk)
        P_ell = r.random((len(case['poles']), nk))
        res.append(ps.expand_poles_to_3d(k_ell, P_ell, n, L, np.array(case['poles'], dtype=np.int64)))
        f1 = delta.copy()
        ps.shift_field_fft(f1, delta.copy(), n, L, L / n)
        res.append(f1)
        fld = r.random((n, n, n)).astype(np.float32) + 1
        res.append(ps.normalize_field(fld, inplace=True, nthread=T))
        ps._normalize(f1, np.float32(0.5), nthread=T)
        res.append(ps.get_raw_power(f1))
        return res
    res, exc, summ = H.run(body, case['sched'])
    if SIM.oob_events:
        ev = SIM.oob_events[0]
        violation(out, 'oob', (ev['region'] or 'power_spectrum').split('#')[0], ev)
    elif isinstance(exc, IndexError):
        violation(out, 'raises:IndexError', 'power_spectrum kernels', repr(exc)[:300])
    elif exc is not None:
        violation(out, 'raises:' + type(exc).__name__, 'power_spectrum kernels', repr(exc)[:300])
    out['steps'] = summ['steps']
    bump(out['probes'], 'sim:power-kernels')
    out['events'].append(['simps', n, T, summ['regions']])
    out['nontrivial'] = ['simps', n, T, case['poles'], case['nk']]
    return out


def _short(a):
    import json
    s = json.dumps(a, default=str)
    return a if len(s) < 600 else {'truncated': s[:600]}


def shrink(case):
    if case['kind'] == 'bc':
        b = case['cases']
        if len(b) > 1:
            yield dict(case, cases=b[:len(b) // 2])
            yield dict(case, cases=b[len(b) // 2:])
            for i in range(len(b)):
                yield dict(case, cases=[b[i]])
        return
    if case['kind'] == 'sim':
        import importlib
        mod = importlib.import_module('props.' + case['prop'])
        if hasattr(mod, 'shrink'):
            for c in mod.shrink(case['case']):
                yield dict(case, case=c)
        return
    if case['kind'] == 'arena':
        a = case['args']
        if isinstance(a.get('n'), int) and a['n'] > 0:
            yield dict(case, args=dict(a, n=a['n'] - 1))
        if isinstance(a.get('pos'), list) and len(a['pos']) > 1:
            for i in range(len(a['pos'])):
                yield dict(case, args=dict(a, pos=a['pos'][:i] + a['pos'][i + 1:]))
        if isinstance(a.get('recs'), list) and len(a['recs']) > 1:
            for i in range(len(a['recs'])):
                yield dict(case, args=dict(a, recs=a['recs'][:i] + a['recs'][i + 1:]))
