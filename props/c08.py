"""C08 -- every Fourier mode is binned exactly once into the right (k, mu) bin.

E1 contributes the schedule dimension (per-thread accumulators indexed by
get_thread_id(), their reduction, thread-count independence of the integer
counts); which modes are counted is decided against a brute-force enumeration
of the full mesh (e1_threads.moderef).
"""
import numpy as np

from simcore.core import new_outcome, violation, bump

PID = 'C08'
QUICK_RUNS = 500
QUICK_SECONDS = 150
THOROUGH_SECONDS = 900
CASE_TIMEOUT = 300
LEVEL = 'exploration'
RULE = ('case = (mesh size 1..12 odd/even, unique random value per stored mode, k edges: natural-linear (ties) / '
        'half-integer squares (tie-free) / log / starting above 0 / ending below, at, above Nyquist / single bin, '
        'mu bins 1..6 or (pimax, Npi), multipoles subset of {0,2,4,6}, nthread 1..16, schedule config, fourier flag). '
        'non-trivial = at least one mode inside the binned range and mesh >= 2; distinct = distinct (kernel, mesh, '
        'edge style, range class, n mu/pi bins, poles, nthread, policy, strategy)')
COMPONENTS = {'real': ['analysis/power_spectrum.py: bin_kmu, bin_kppi, P_n as cooperative generators on simulated threads; '
                       'compiled bin_kmu/bin_kppi with nthread=1 for a quarter of the cases'],
              'stub': ['numba thread pool and scheduler']}
ASSUMPTIONS = ['a mode whose |k|^2 (or mu^2, k_par^2) is within 8 float32 ulps of an edge^2, or exactly on it, may be '
               'counted on either side; means are compared only on bins without such modes',
               'the value of a full-mesh mode with k_z < 0 is that of its Hermitian conjugate in the half mesh']

EPS32 = float(np.finfo(np.float32).eps)


def gen(rng, tier):
    from e1_threads.harness import gen_sched
    n = rng.choice([1, 2, 3, 4, 5, 6, 7, 8, rng.randrange(1, 13)] + ([rng.randrange(13, 21)] if tier == 'thorough' else []))
    if rng.random() < 0.03:
        n = rng.choice([16, 17, 24, 32])
    L = rng.choice([1.0, 2 * np.pi, 500.0, 2000.0])
    dk = 2 * np.pi / L
    nyq2 = (n / 2.0) ** 2
    kmax2_all = 3 * (n // 2) ** 2 + 1
    style = rng.choice(['natural', 'natural', 'halfint', 'halfint', 'log', 'random'])
    rng_class = rng.choice(['to-nyquist', 'below-nyquist', 'above-nyquist', 'all', 'from-above-0'])
    top2 = {'to-nyquist': nyq2, 'below-nyquist': max(0.3, nyq2 * 0.5), 'above-nyquist': nyq2 * 2 + 0.3,
            'all': kmax2_all + 1.0, 'from-above-0': nyq2}[rng_class]
    nb = rng.choice([1, 1, 2, 3, 5, 8])
    lo2 = 0.0
    if rng_class == 'from-above-0' or style == 'log':
        lo2 = rng.choice([0.5, 0.9998, 1.5, 2.5])
    if style == 'natural':
        edges = list(np.linspace(np.sqrt(lo2), np.sqrt(top2), nb + 1) * dk)
    elif style == 'halfint':
        m_lo, m_hi = int(lo2), max(int(lo2) + 1, int(top2))
        pool = list(range(m_lo, m_hi + 1))
        ms = sorted(rng.sample(pool, min(len(pool), nb + 1)))
        if len(ms) < 2:
            ms = [m_lo, m_lo + 1]
        edges = [float(np.sqrt(m + 0.5) * dk) if (m > 0 or lo2 > 0) else 0.0 for m in ms]
    elif style == 'log':
        edges = list(np.geomspace(np.sqrt(max(lo2, 0.25)), np.sqrt(max(top2, lo2 + 1)), nb + 1) * dk)
    else:
        pts = sorted(set([lo2 ** 0.5, top2 ** 0.5] + [rng.uniform(lo2 ** 0.5, top2 ** 0.5) for _ in range(nb - 1)]))
        edges = [p * dk for p in pts]
    edges = [float(e) for e in edges]
    if len(edges) < 2 or any(b <= a for a, b in zip(edges, edges[1:])):
        edges = [0.0, float(np.sqrt(top2 + 0.5) * dk)]
    if rng.random() < 0.06:
        # a catch-all last bin: everything above the last finite edge
        edges[-1] = rng.choice([float('inf'), 1e12 * dk, 3.1e9 * dk])
        rng_class = 'all'
    which = rng.choice(['kmu', 'kmu', 'kppi'])
    nmu = rng.randrange(1, 7)
    mustyle = rng.choice(['linear', 'random'])
    if mustyle == 'linear':
        muedges = [float(x) for x in np.linspace(0, 1, nmu + 1)]
    else:
        muedges = [0.0] + sorted(rng.uniform(0.02, 0.98) for _ in range(nmu - 1)) + [1.0]
    pool = [0, 2, 4, 6] if rng.random() < 0.6 else [0, 1, 2, 3, 4, 5, 6]
    poles = rng.sample(pool, min(len(pool), rng.choice([0, 0, 1, 2, 3, 4])))
    if rng.random() < 0.7:
        poles = sorted(poles)
    pimax_class = rng.choice(['below', 'at', 'above'])
    pimax = {'below': max(0.6, n / 4.0 + 0.25), 'at': n / 2.0, 'above': n / 2.0 + 1.7}[pimax_class] * dk
    return {'which': which, 'n': n, 'L': L, 'kedges': edges, 'muedges': muedges, 'poles': poles,
            'pimax': float(pimax), 'pimax_class': pimax_class, 'Npi': rng.randrange(1, 6),
            'style': style, 'range': rng_class, 'mustyle': mustyle, 'wseed': rng.randrange(1 << 30),
            'fourier': rng.random() < 0.85, 'nthread': rng.choice([1, 2, 3, 4, 5, 8, 16]),
            'sched': gen_sched(rng), 'compiled': rng.random() < 0.25,
            'prev_nthread': rng.choice([None, 1, 2, 5, 16]),
            'huge': None, 'failed_call_before': rng.random() < 0.2, 'layout': rng.choice(['C', 'C', 'C', 'fortran', 'strided', 'readonly'])}


def sweep(tier):
    """Always-run cases: meshes whose single all-covering bin holds more than 2**24 modes (compiled)."""
    base = {'which': 'kmu', 'n': 2, 'L': 2 * np.pi, 'kedges': [0.0, 1.5], 'muedges': [0.0, 1.0], 'poles': [], 'pimax': 1.0,
            'pimax_class': 'at', 'Npi': 1, 'style': 'halfint', 'range': 'all', 'mustyle': 'linear', 'wseed': 1, 'fourier': True,
            'nthread': 2, 'sched': {'policy': 'static', 'strategy': 'serial', 'seed': 1}, 'compiled': False, 'prev_nthread': None}
    for n in ((256, 320, 400) if tier == 'thorough' else (256, 320)):
        yield dict(base, huge=n)
    # complete (mesh size, thread count) sweep of the compiled kernels: a split of the mesh between threads that is
    # computed from (n, nthread) misses rows only for particular pairs
    nmax = 256 if tier == 'thorough' else 128
    for lo in range(1, nmax + 1, 32):
        yield dict(base, nt_sweep=[lo, min(lo + 32, nmax + 1)])


def _weights(case):
    n = case['n']
    r = np.random.default_rng(case['wseed'])
    shape = (n, n, n // 2 + 1) if case['fourier'] else (n, n, n)
    return (r.random(shape) + 0.5).astype(np.float32)


def _call(ps, case, w, nthread):
    n, L = case['n'], case['L']
    ke = np.array(case['kedges'], dtype=np.float64)
    if case['which'] == 'kmu':
        return ps.bin_kmu(n, L, ke, np.array(case['muedges'], dtype=np.float64), w,
                          poles=np.array(case['poles'], dtype=np.int64), fourier=case['fourier'], nthread=nthread)
    return ps.bin_kppi(n, L, ke, case['pimax'], case['Npi'], w, fourier=case['fourier'], nthread=nthread)


def _oracle(out, site, case, res, ref):
    which = case['which']
    if which == 'kmu':
        mean, counts, pmean, cpoles, kmean = [np.asarray(x) for x in res]
    else:
        mean, counts = [np.asarray(x) for x in res]
    if counts.shape != ref['cnt_lo'].shape:
        violation(out, 'bad-shape', site, 'counts %s expected %s' % (counts.shape, ref['cnt_lo'].shape))
        return
    if not np.issubdtype(counts.dtype, np.integer):
        violation(out, 'counts-not-integer', site, str(counts.dtype))
        return
    low = counts < ref['cnt_lo']
    high = counts > ref['cnt_hi']
    if low.any() or high.any():
        b = tuple(int(x) for x in np.argwhere(low | high)[0])
        tot = int(counts.sum())
        kind = 'modes-dropped' if low.any() and not high.any() else ('modes-overcounted' if high.any() and not low.any()
                                                                      else 'modes-misplaced')
        violation(out, kind, site, {'bin': list(b), 'count': int(counts[b]), 'expected_min': int(ref['cnt_lo'][b]),
                                    'expected_max': int(ref['cnt_hi'][b]), 'total_counted': tot,
                                    'expected_total_min': int(ref['cnt_lo'].sum()), 'expected_total_max': int(ref['cnt_hi'].sum()),
                                    'mesh': case['n']})
        return
    clean = ~ref['amb'] & (ref['cnt_lo'] > 0)
    atol = 16 * EPS32 * ref['abs'] / np.maximum(ref['cnt_lo'], 1) * np.sqrt(np.maximum(ref['cnt_lo'], 1)) + 1e-30
    d = np.abs(mean.astype(np.float64) - ref['mean'])
    bad = clean & ~(d <= atol)
    if bad.any():
        b = tuple(int(x) for x in np.argwhere(bad)[0])
        violation(out, 'wrong-mean-value', site, {'bin': list(b), 'got': float(mean[b]), 'expected': float(ref['mean'][b]),
                                                  'tol': float(atol[b])})
        return
    empty = (ref['cnt_hi'] == 0)
    if (np.abs(mean[empty]) > 0).any():
        violation(out, 'value-in-empty-bin', site, 'non-zero mean in a bin without modes')
        return
    if which == 'kmu':
        dk_ = np.abs(kmean.astype(np.float64) - ref['kmean'])
        tolk = 16 * EPS32 * np.maximum(ref['kmean'], 1e-30) * np.sqrt(np.maximum(ref['cnt_lo'], 1))
        bad = clean & ~(dk_ <= tolk)
        if bad.any():
            b = tuple(int(x) for x in np.argwhere(bad)[0])
            violation(out, 'wrong-mean-k', site, {'bin': list(b), 'got': float(kmean[b]), 'expected': float(ref['kmean'][b])})
            return
        if not np.array_equal(cpoles, counts.sum(axis=1)):
            violation(out, 'pole-counts-mismatch', site, 'counts_poles != counts.sum(axis=1)')
            return
        cleank = ~ref['amb_k'] & (ref['cnt_lo'].sum(axis=1) > 0)
        for ip, ell in enumerate(case['poles']):
            scale = (2 * ell + 1) * (1.0 if ell == 0 else 4.0 ** ((ell + 1) // 2))
            cntk = np.maximum(ref['cnt_lo'].sum(axis=1), 1)
            tolp = 64 * EPS32 * scale * ref['abs'].sum(axis=1) / cntk * np.maximum(1.0, np.sqrt(cntk) / 4) + 1e-30
            dp = np.abs(pmean[ip].astype(np.float64) - ref['poles'][ip])
            badp = cleank & ~(dp <= tolp)
            if badp.any():
                b = int(np.nonzero(badp)[0][0])
                violation(out, 'wrong-multipole', site, {'ell': ell, 'kbin': b, 'got': float(pmean[ip][b]),
                                                         'expected': float(ref['poles'][ip][b]), 'tol': float(tolp[b])})
                return
            if ell == 0:
                with np.errstate(invalid='ignore', divide='ignore'):
                    wavg = np.where(cpoles > 0, (mean.astype(np.float64) * counts).sum(axis=1) / np.maximum(cpoles, 1), 0.0)
                if not np.allclose(pmean[ip], wavg, rtol=2e-5, atol=1e-6):
                    violation(out, 'monopole-not-mu-average', site, 'l=0 differs from the mode-weighted mu average of the wedges')
                    return


def _huge(case, out):
    """Compiled kernel on a mesh whose bins hold more than 2**24 modes (sizes the interpreted simulation cannot
    reach).  k edges are tie-free (half-integer squares), one mu bin; the expected counts are computed exactly,
    slab by slab, in integer arithmetic."""
    from abacusnbody.analysis import power_spectrum as rps
    n = case['huge']
    L = 2 * np.pi
    e2 = np.array([0.0, int((0.31 * n) ** 2) + 0.5, int((0.62 * n) ** 2) + 0.5, 3.0 * n * n])
    kedges = np.sqrt(e2)
    f = np.arange(n)
    f = np.where(f < (n + 1) // 2, f, f - n).astype(np.int64)
    kz = np.arange(n // 2 + 1, dtype=np.int64)
    mult = np.where((kz == 0) | (2 * kz == n), 1, 2).astype(np.int64)
    want = np.zeros(3, dtype=np.int64)
    jk2 = (f * f)[:, None] + (kz * kz)[None, :]
    for i in range(n):
        k2 = jk2 + f[i] * f[i]
        b = np.searchsorted(e2, k2.ravel(), side='right') - 1
        ok = (b >= 0) & (b < 3)
        want += np.bincount(b[ok], weights=np.broadcast_to(mult, k2.shape).ravel()[ok], minlength=3).astype(np.int64)[:3]
    w = np.ones((n, n, n // 2 + 1), dtype=np.float32)
    for T in (1, 2, 3, 16):
        res = rps.bin_kmu(n, L, kedges, np.array([0.0, 1.0]), w, nthread=T)
        cnt = np.asarray(res[1])[:, 0].astype(np.int64)
        if not np.array_equal(cnt, want):
            violation(out, 'modes-miscounted-on-large-mesh', 'bin_kmu[compiled]',
                      {'mesh': n, 'nthread': T, 'count': cnt.tolist(), 'expected': want.tolist()})
            return
        # (the mean of the weights is not looked at here: it is accumulated in the weights' float32, which cannot hold
        # sums beyond 2**24..2**25 exactly on one thread -- an accuracy limit, not a statement of this property)
    bump(out['probes'], 'mesh-with-more-than-2^24-modes-per-bin')
    out['events'].append(['huge', n, want.tolist()])


def _nt_sweep(case, out):
    from abacusnbody.analysis import power_spectrum as rps
    lo, hi = case['nt_sweep']
    L = 2 * np.pi
    for n in range(lo, hi):
        w = (np.random.default_rng(n).random((n, n, n // 2 + 1)) + 0.5).astype(np.float32)
        ke = np.array([0.0, 0.37 * n + 0.25, 0.71 * n + 0.25, 2.0 * n])
        mu = np.array([0.0, 0.4, 1.0])
        poles = np.array([0, 2], dtype=np.int64)
        ref = None
        for which in ('kmu', 'kppi'):
            for T in range(1, 17):
                if which == 'kmu':
                    res = rps.bin_kmu(n, L, ke, mu, w, poles=poles, nthread=T)
                else:
                    res = rps.bin_kppi(n, L, ke, 0.5 * n + 0.3, 3, w, nthread=T)
                res = [np.array(np.asarray(x), copy=True) for x in res]
                if T == 1:
                    ref = res
                    if which == 'kmu' and int(res[1].sum()) != n ** 3:
                        violation(out, 'modes-miscounted', 'bin_kmu[compiled]', {'mesh': n, 'nthread': 1, 'total': int(res[1].sum()), 'expected': n ** 3})
                        return out
                    continue
                if not np.array_equal(res[1], ref[1]) or (which == 'kmu' and not np.array_equal(res[3], ref[3])):
                    violation(out, 'counts-depend-on-threads', 'bin_%s[compiled]' % which,
                              {'mesh': n, 'nthread': T, 'total_1': int(ref[1].sum()), 'total_T': int(res[1].sum())})
                    return out
                cnt = np.maximum(ref[1], 1)
                if not (np.abs(res[0].astype(np.float64) - ref[0]) <= 64 * EPS32 * 1.5 * np.maximum(1.0, np.sqrt(cnt) / 4)).all():
                    violation(out, 'values-depend-on-threads', 'bin_%s[compiled]' % which, {'mesh': n, 'nthread': T})
                    return out
    bump(out['probes'], 'compiled-(mesh,threads)-sweep', (hi - lo) * 16)
    bump(out['faults'], 'real-thread-counts-1..16', hi - lo)
    out['events'].append(['nt_sweep', lo, hi])
    out['steps'] = (hi - lo) * 32
    out['nontrivial'] = ['nt_sweep', lo]
    return out


def run(case):
    if case.get('nt_sweep'):
        return _nt_sweep(case, new_outcome())
    from abx_sim.analysis import power_spectrum as ps
    from e1_threads import harness as H
    from e1_threads import moderef
    from e1_threads.sched import SIM
    out = new_outcome()
    n = case['n']
    w = H.with_layout(_weights(case), case.get('layout', 'C'))
    if case['which'] == 'kmu':
        ref = moderef.bin_kmu_ref(n, case['L'], case['kedges'], case['muedges'], w, case['poles'], case['fourier'])
        site = 'bin_kmu'
    else:
        ref = moderef.bin_kppi_ref(n, case['L'], case['kedges'], case['pimax'], case['Npi'], w, case['fourier'])
        site = 'bin_kppi'
        bump(out['probes'], 'pimax-%s-nyquist' % case['pimax_class'])
    s = case['sched']

    def fail_first(T):
        # history: a call with the same bins, poles and thread count that dies midway (a mesh one plane short of
        # what n says) comes first; its own events are discarded, whatever it left behind is not
        if case.get('failed_call_before') and n >= 2:
            H.run(lambda: _call(ps, case, w[:n - 1], T), {'policy': 'static', 'strategy': 'serial'})
    fail_first(1)
    res1, exc1, summ1 = H.run(lambda: _call(ps, case, w, 1), {'policy': 'static', 'strategy': 'serial'})
    oob1 = list(SIM.oob_events)
    fail_first(case['nthread'])
    res, exc, summ = H.run(lambda: _call(ps, case, w, case['nthread']), s)
    out['steps'] = summ['steps'] + summ1['steps']
    bump(out['faults'], 'policy=' + s.get('policy', 'static'))
    bump(out['faults'], 'strategy=' + s.get('strategy', 'serial'))
    bump(out['faults'], 'context-switches', summ['switches'])
    bump(out['probes'], 'edges:' + case['style'])
    bump(out['probes'], 'range:' + case['range'])
    bump(out['probes'], 'mesh-' + ('odd' if n % 2 else 'even'))
    if ref['amb'].any():
        bump(out['probes'], 'edge-tie-modes')
    oob = SIM.oob_events or oob1
    if oob:
        ev = oob[0]
        violation(out, 'oob', (ev['region'] or site).split('#')[0], ev)
        return out
    if exc is not None or exc1 is not None:
        e = exc or exc1
        violation(out, 'raises:' + type(e).__name__, site, repr(e)[:300])
        return out
    conflicts, nben = SIM.conflicts(limit=2)
    for c in conflicts:
        violation(out, 'conflict', c['region'].split('#')[0], {'where': c['where'], 'threads': c['threads']})
        return out
    _oracle(out, site + '[sim]', case, res, ref)
    if out['violations']:
        return out
    # thread-count / schedule independence
    c1 = np.asarray(res1[1])
    cT = np.asarray(res[1])
    if not np.array_equal(c1, cT):
        violation(out, 'counts-depend-on-threads', site, {'nthread': case['nthread'], 'total_1': int(c1.sum()),
                                                          'total_T': int(cT.sum())})
        return out
    # (float outputs: each thread count is held to the reference within the rounding bound of a float32 sum, which
    # grows with the number of modes in the bin; a fixed bound between two thread counts was a false alarm at n=32)
    _oracle(out, site + '[sim,nthread=1]', case, res1, ref)
    if out['violations']:
        return out
    # ---- history: the thread count is process-global state (numba.set_num_threads); a call made after a
    # call with another thread count, in the same session, must give the same answer as a fresh one
    prevT = case.get('prev_nthread')
    if prevT:
        def two_calls():
            _call(ps, case, w, prevT)
            return _call(ps, case, w, case['nthread'])
        res2, exc2, summ2 = H.run(two_calls, H.without_replay(s))
        if SIM.oob_events:
            violation(out, 'oob', (SIM.oob_events[0]['region'] or site).split('#')[0], SIM.oob_events[0])
            return out
        if exc2 is not None:
            violation(out, 'raises:' + type(exc2).__name__, site + ':after-call-with-other-thread-count', repr(exc2)[:300])
            return out
        if not np.array_equal(np.asarray(res2[1]), cT):
            violation(out, 'counts-depend-on-previous-call', site, {'previous_nthread': prevT, 'nthread': case['nthread']})
            return out
        _oracle(out, site + '[sim]:after-call-with-other-thread-count', case, res2, ref)
        if out['violations']:
            return out
        bump(out['faults'], 'global-thread-count-changed-between-calls')
    out['events'].append([site, n, case['nthread'], int(cT.sum()), summ['regions'], summ['switches']])
    # ---- the same binning as reported by the estimator built on it (calc_pk_from_deltak): the per-bin means of
    # |field|^2 times Lbox^3, mode counts and mean k unchanged
    if case['which'] == 'kmu' and case['fourier']:
        field = np.sqrt(w.astype(np.float64)).astype(np.complex64)
        L = case['L']

        def estimator():
            return ps.calc_pk_from_deltak(field, L, np.array(case['kedges'], dtype=np.float64), np.array(case['muedges'], dtype=np.float64),
                                          poles=np.array(case['poles'], dtype=np.int64), squeeze_mu_axis=False, nthread=case['nthread'])
        est, exc3, _ = H.run(estimator, H.without_replay(s))
        esite = 'calc_pk_from_deltak'
        if SIM.oob_events:
            violation(out, 'oob', (SIM.oob_events[0]['region'] or esite).split('#')[0], SIM.oob_events[0])
            return out
        if exc3 is not None:
            violation(out, 'raises:' + type(exc3).__name__, esite, repr(exc3)[:300])
            return out
        mean, counts, pmean, cpoles, kmean = [np.asarray(x) for x in res]
        f3 = float(L) ** 3
        pairs = [('power', mean.astype(np.float64) * f3, 'N_mode', counts), ('k_avg', kmean.astype(np.float64), 'N_mode_poles', cpoles)]
        if len(case['poles']):
            pairs.append(('binned_poles', pmean.astype(np.float64) * f3, 'N_mode_poles', cpoles))
        for name, want, cname, cwant in pairs:
            got = np.asarray(est[name], dtype=np.float64)
            if got.shape != want.shape or not np.allclose(got, want, rtol=5e-5, atol=1e-6 * max(1.0, f3)):
                violation(out, 'estimator-differs-from-binning', esite,
                          {'output': name, 'Lbox': L, 'poles': case['poles'], 'n_mu_bins': len(case['muedges']) - 1,
                           'max_ratio': float(np.nanmax(np.abs(got) / np.maximum(np.abs(want), 1e-300))) if got.shape == want.shape and got.size else None})
                return out
            if not np.array_equal(np.asarray(est[cname]), cwant):
                violation(out, 'estimator-differs-from-binning', esite, {'output': cname})
                return out
        bump(out['probes'], 'estimator-on-top-of-binning')
    if case.get('compiled'):
        _compiled(case, w, ref, site, out, res1)
    if case.get('huge') and not out['violations']:
        _huge(case, out)
    if n >= 2 and int(ref['cnt_hi'].sum()) > 0:
        out['nontrivial'] = [site, n, case['style'], case['range'], len(case['muedges']) - 1 if site == 'bin_kmu' else case['Npi'],
                             case['poles'] if site == 'bin_kmu' else case['pimax_class'], case['nthread'],
                             s.get('policy'), s.get('strategy'), case['fourier']]
    return out


def _compiled(case, w, ref, site, out, res1):
    from abacusnbody.analysis import power_spectrum as rps
    try:
        got = _call(rps, case, w, 1)
    except Exception as e:
        violation(out, 'raises:' + type(e).__name__, site + '[compiled,nthread=1]', repr(e)[:300])
        return
    bump(out['probes'], 'compiled-crosscheck')
    _oracle(out, site + '[compiled,nthread=1]', case, got, ref)
    if not out['violations'] and not np.array_equal(np.asarray(got[1]), np.asarray(res1[1])):
        out['harness'] = 'HARNESS-MISMATCH: compiled and simulated mode counts differ although both satisfy the oracle'


def pin(case):
    from abx_sim.analysis import power_spectrum as ps
    from e1_threads import harness as H
    w = _weights(case)
    return H.pin_with(lambda c: H.run(lambda: _call(ps, c, w, c['nthread']), c['sched']), case)


def shrink(case):
    c = dict(case)
    if case['n'] > 1:
        yield dict(c, n=case['n'] - 1)
        if case['n'] > 3:
            yield dict(c, n=case['n'] // 2)
    if case['poles']:
        yield dict(c, poles=[])
        for i in range(len(case['poles'])):
            yield dict(c, poles=case['poles'][:i] + case['poles'][i + 1:])
    if len(case['muedges']) > 2:
        yield dict(c, muedges=[0.0, 1.0])
    if len(case['kedges']) > 2:
        yield dict(c, kedges=[case['kedges'][0], case['kedges'][-1]])
        yield dict(c, kedges=case['kedges'][:-1])
        yield dict(c, kedges=case['kedges'][1:])
    if case['Npi'] > 1:
        yield dict(c, Npi=1)
    if case['nthread'] > 1:
        yield dict(c, nthread=1)
        yield dict(c, nthread=2)
    if case.get('compiled'):
        yield dict(c, compiled=False)
    if not case['fourier']:
        yield dict(c, fourier=True)
    if case['L'] != 2 * np.pi:
        k = 2 * np.pi / case['L']
        yield dict(c, L=2 * np.pi, kedges=[e / k for e in case['kedges']], pimax=case['pimax'] / k)
    if case['sched'].get('strategy') != 'serial':
        yield dict(c, sched=dict(case['sched'], strategy='serial'))
