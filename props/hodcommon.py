"""Shared by C09 / C10: generation of halo / particle tables and HOD
parameters, an executable reference model of the HOD threshold rule, and the
ordered-subsequence matcher that tolerates hosts whose stored random number
sits within a few ulps of a slice edge."""
import numpy as np

ULPS = 4


def gen_tables(rng, tier, max_h=40, max_p=80):
    H = rng.choice([0, 1, 2, 3, 5, 7, rng.randrange(5, max_h + 1)])
    P = 0 if H == 0 else rng.choice([0, 1, 2, 3, rng.randrange(0, max_p + 1)])
    if rng.random() < 0.015:
        H = rng.choice([1024, 4096, rng.randrange(500, 3000)])                # large, partly "round" table sizes
        P = rng.choice([0, 4096, 8192, rng.randrange(1000, 6000)])
    L = rng.choice([500.0, 2000.0, 100.0])
    tracers = rng.choice([['LRG'], ['LRG', 'ELG'], ['LRG', 'ELG', 'QSO'], ['ELG'], ['QSO'], ['ELG', 'QSO'], ['LRG', 'QSO']])
    halos = []
    for i in range(H):
        logm = rng.uniform(11.5, 14.5)
        halos.append({
            'pos': [rng.uniform(-L / 2, L / 2) for _ in range(3)],
            'vel': [rng.uniform(-900, 900) for _ in range(3)],
            'logm': logm,
            'id': 1000 + 7 * i + rng.randrange(0, 7),
            'multi': rng.choice([1.0, 1.0, 1.0, 0.5, 2.0]),
            'random': rng.choice([0.0, 1.0, rng.random(), rng.random() ** 3, rng.random() ** 0.3]),
            'vdev': [rng.gauss(0, 150) for _ in range(3)],
            'deltac': rng.uniform(-0.5, 0.5), 'fenv': rng.uniform(-0.5, 0.5), 'shear': rng.uniform(-0.5, 0.5),
            'edge': rng.choice([None] * 6 + [('LRG', 0), ('ELG', 1), ('QSO', -1), ('LRG', 8), ('ELG', -8)]),
        })
    halos.sort(key=lambda h: h['id'])
    parts = []
    for j in range(P):
        hi = rng.randrange(H)
        parts.append({
            'hidx': hi,
            'pos': [rng.uniform(-L / 2, L / 2) for _ in range(3)],
            'vel': [rng.uniform(-1500, 1500) for _ in range(3)],
            'weight': rng.choice([1.0, 0.1, 0.03, 0.5, 3.0]),
            'random': rng.choice([0.0, 1.0, rng.random(), rng.random() ** 4]),
            'ranks': [rng.uniform(-1, 1) for _ in range(5)],
            'edge': rng.choice([None] * 6 + [('LRG', 0), ('ELG', 1), ('QSO', -1)]),
        })
    parts.sort(key=lambda p: p['hidx'])
    if rng.random() < 0.3 and parts:
        # the particle table need not follow the host order (staging sorts hosts by id and leaves the particles as
        # they were read): host groups in a seeded order, or no grouping at all
        if rng.random() < 0.6:
            keys = {h: rng.random() for h in {p['hidx'] for p in parts}}
            parts.sort(key=lambda p: keys[p['hidx']])
        else:
            rng.shuffle(parts)

    def tr(name):
        d = {'logM_cut': rng.uniform(12.0, 13.6), 'logM1': rng.uniform(12.8, 14.2), 'sigma': rng.uniform(0.15, 0.9),
             'alpha': rng.uniform(0.6, 1.4), 'kappa': rng.uniform(0.0, 1.2),
             'alpha_c': rng.choice([0.0, rng.uniform(0, 0.8)]), 'alpha_s': rng.choice([1.0, rng.uniform(0.5, 1.5)]),
             's': rng.choice([0.0, rng.uniform(-0.8, 0.8)]), 's_v': rng.choice([0.0, rng.uniform(-0.5, 0.5)]),
             's_p': rng.choice([0.0, rng.uniform(-0.5, 0.5)]), 's_r': rng.choice([0.0, rng.uniform(-0.5, 0.5)]),
             'Acent': rng.choice([0.0, rng.uniform(-0.4, 0.4)]), 'Asat': rng.choice([0.0, rng.uniform(-0.4, 0.4)]),
             'Bcent': rng.choice([0.0, rng.uniform(-0.4, 0.4)]), 'Bsat': rng.choice([0.0, rng.uniform(-0.4, 0.4)]),
             'ic': rng.choice([1.0, 1.0, rng.uniform(0.2, 1.0), rng.uniform(0.2, 1.0), 0.0])}     # 0: legal, no galaxies
        if name == 'ELG':
            d.update({'p_max': rng.uniform(0.1, 0.9), 'Q': rng.uniform(20, 200), 'gamma': rng.uniform(1.0, 6.0),
                      'A_s': rng.uniform(0.5, 1.5), 'Ccent': rng.choice([0.0, rng.uniform(-0.3, 0.3)]),
                      'Csat': rng.choice([0.0, rng.uniform(-0.3, 0.3)])})
            if rng.random() < 0.6:
                # strong conformity so that the branch decides real hosts; any subset of the four keys may be given
                conf = {'logM1_EE': rng.uniform(11.3, 13.0), 'alpha_EE': rng.uniform(0.3, 1.6),
                        'logM1_EL': rng.uniform(11.3, 14.2), 'alpha_EL': rng.uniform(0.3, 1.6)}
                keys = list(conf) if rng.random() < 0.5 else rng.sample(list(conf), rng.randrange(1, 4))
                d.update({k: conf[k] for k in keys})
        # the optional keys (documented defaults: 0 for the assembly-bias terms, 1 for ic) are left out now and then
        for k in ('Acent', 'Asat', 'Bcent', 'Bsat', 'ic', 'Ccent', 'Csat'):
            if k in d and rng.random() < 0.15:
                del d[k]
        if rng.random() < 0.25:
            # redshift-evolving HOD: logM_cut and logM1 move by *_pr * (a(z) - a(z_pivot))
            d['z_pivot'] = rng.choice([0.8, 0.2, 0.5])
            d['logM_cut_pr'] = rng.choice([0.0, rng.uniform(-3.0, 3.0)])
            d['logM1_pr'] = rng.choice([0.0, rng.uniform(-3.0, 3.0)])
        return d
    origin = None if rng.random() < 0.7 else [rng.uniform(-L, L) * 3 for _ in range(3)]
    if origin is not None and rng.random() < 0.4:
        # degenerate but legal: a host and a particle sitting exactly on the light-cone observer
        origin = [rng.uniform(-L / 2, L / 2) for _ in range(3)]
        if halos:
            rng.choice(halos)['pos'] = list(origin)
        if parts:
            rng.choice(parts)['pos'] = list(origin)
    tracer_order = list(tracers)
    if rng.random() < 0.5:
        rng.shuffle(tracer_order)
    return {'L': L, 'halos': halos, 'parts': parts, 'tracers': {t: tr(t) for t in tracers}, 'tracer_order': tracer_order,
            'Mpart': 2.1e9, 'velz2kms': rng.uniform(20.0, 200.0),
            'rsd': rng.random() < 0.6, 'origin': origin,
            'enable_ranks': rng.random() < 0.4, 'want_AB': rng.random() < 0.6, 'want_shear': rng.random() < 0.5,
            'z': 0.5}


def _ulp_shift(x, k):
    x = np.float64(x)
    for _ in range(abs(k)):
        x = np.nextafter(x, np.inf if k > 0 else -np.inf)
    return float(x)


class Model:
    """Reference model of the HOD rule, composed from the package's own
    mean-occupation functions (passed in as ``occ``: the py_func versions)."""

    def __init__(self, case, occ):
        self.c = case
        self.occ = occ
        self.tr = case['tracers']

    def _defaults(self, name):
        d = dict(self.tr[name])
        # redshift evolution first (documented: logM_cut, logM1 += *_pr * (1/(1+z) - 1/(1+z_pivot))); every default
        # that refers to logM1 refers to the evolved one
        z = self.c['z']
        da = 1.0 / (1 + z) - 1.0 / (1 + d.get('z_pivot', z))
        d['logM_cut'] = d['logM_cut'] + d.get('logM_cut_pr', 0.0) * da
        d['logM1'] = d['logM1'] + d.get('logM1_pr', 0.0) * da
        d.setdefault('Acent', 0.0), d.setdefault('Asat', 0.0), d.setdefault('Bcent', 0.0), d.setdefault('Bsat', 0.0)
        d.setdefault('ic', 1.0)
        if name == 'ELG':
            d.setdefault('Ccent', 0.0), d.setdefault('Csat', 0.0)
            d.setdefault('logM1_EE', d['logM1']), d.setdefault('alpha_EE', d['alpha'])
            d.setdefault('logM1_EL', d['logM1']), d.setdefault('alpha_EL', d['alpha'])
        return d

    def env(self, h):
        c = self.c
        dc = h['deltac'] if c['want_AB'] else 0.0
        fe = h['fenv'] if c['want_AB'] else 0.0
        sh = h['shear'] if c['want_shear'] else 0.0
        return dc, fe, sh

    def cent_markers(self, h):
        o = self.occ
        m = 10 ** h['logm']
        dc, fe, sh = self.env(h)
        marks = {}
        run = 0.0
        for name in ('LRG', 'ELG', 'QSO'):
            if name in self.tr:
                d = self._defaults(name)
                if name == 'LRG':
                    p = o['n_cen_LRG'](m, d['logM_cut'] + d['Acent'] * dc + d['Bcent'] * fe, d['sigma'])
                elif name == 'ELG':
                    p = o['N_cen_ELG_v1'](m, d['p_max'], d['Q'], d['logM_cut'] + d['Acent'] * dc + d['Bcent'] * fe + d['Ccent'] * sh,
                                          d['sigma'], d['gamma'])
                else:
                    p = o['N_cen_QSO'](m, d['logM_cut'] + d['Acent'] * dc + d['Bcent'] * fe, d['sigma'])
                run = run + p * d['ic'] * h['multi']
            marks[name] = run
        return marks

    def sat_markers(self, p, h, keep_cent):
        o = self.occ
        m = 10 ** h['logm']
        dc, fe, sh = self.env(h)
        er = self.c['enable_ranks']
        r = p['ranks']
        marks = {}
        run = 0.0
        for name in ('LRG', 'ELG', 'QSO'):
            if name in self.tr:
                d = self._defaults(name)
                deco = (1 + d['s'] * r[0] + d['s_v'] * r[1] + d['s_p'] * r[2] + d['s_r'] * r[3]) if er else 1.0
                if name == 'LRG':
                    M1 = 10 ** (d['logM1'] + d['Asat'] * dc + d['Bsat'] * fe)
                    lmc = d['logM_cut'] + d['Acent'] * dc + d['Bcent'] * fe
                    base = o['n_sat_LRG_modified'](m, lmc, 10 ** lmc, M1, d['sigma'], d['alpha'], d['kappa']) * p['weight'] * d['ic']
                elif name == 'ELG':
                    M1 = 10 ** (d['logM1'] + d['Asat'] * dc + d['Bsat'] * fe + d['Csat'] * sh)
                    lmc = d['logM_cut'] + d['Acent'] * dc + d['Bcent'] * fe + d['Ccent'] * sh
                    alpha = d['alpha']
                    if keep_cent == 1:
                        M1 = 10 ** (d['logM1_EL'] + d['Asat'] * dc + d['Bsat'] * fe)
                        alpha = d['alpha_EL']
                    elif keep_cent == 2:
                        M1 = 10 ** (d['logM1_EE'] + d['Asat'] * dc + d['Bsat'] * fe)
                        alpha = d['alpha_EE']
                    base = o['N_sat_elg'](m, 10 ** lmc, d['kappa'], M1, alpha, d['A_s']) * p['weight'] * d['ic']
                else:
                    M1 = 10 ** (d['logM1'] + d['Asat'] * dc + d['Bsat'] * fe)
                    lmc = d['logM_cut'] + d['Acent'] * dc + d['Bcent'] * fe
                    base = o['N_sat_generic'](m, 10 ** lmc, d['kappa'], M1, d['alpha']) * p['weight'] * d['ic']
                run = run + base * deco
            marks[name] = run
        return marks

    @staticmethod
    def decide(r, marks):
        """Returns (code, ambiguous).  code 1/2/3/0 as the keep array."""
        amb = False
        for name in ('LRG', 'ELG', 'QSO'):
            mk = marks[name]
            lo, hi = _ulp_shift(mk, -ULPS), _ulp_shift(mk, ULPS)
            if lo <= r <= hi and mk != 0.0:
                amb = True
        code = 0
        if r <= marks['LRG']:
            code = 1
        elif r <= marks['ELG']:
            code = 2
        elif r <= marks['QSO']:
            code = 3
        return code, amb

    def galaxy(self, name, pos, vel, mass, hid):
        """Apply RSD to a galaxy with final velocity ``vel``."""
        c = self.c
        x, y, z = pos
        vx, vy, vz = vel
        inv = 1.0 / c['velz2kms']
        L = c['L']
        if c['rsd'] and c['origin'] is not None:
            o = c['origin']
            nx, ny, nz = x - o[0], y - o[1], z - o[2]
            nrm = 1.0 / np.sqrt(nx * nx + ny * ny + nz * nz)
            nx, ny, nz = nx * nrm, ny * nrm, nz * nrm
            proj = inv * (vx * nx + vy * ny + vz * nz)
            x, y, z = x + proj * nx, y + proj * ny, z + proj * nz
        elif c['rsd']:
            z = z + vz * inv
            if z >= L / 2:
                z -= L
            elif z < -L / 2:
                z += L
        return {'x': x, 'y': y, 'z': z, 'vx': vx, 'vy': vy, 'vz': vz, 'mass': mass, 'id': hid}

    def expected(self):
        """Per tracer: ordered candidate list [(required, galaxy dict, kind)], centrals first."""
        c = self.c
        res = {t: [] for t in self.tr}
        names = {1: 'LRG', 2: 'ELG', 3: 'QSO'}
        keepc = []
        amb_cent = []
        for h in c['halos']:
            marks = self.cent_markers(h)
            code, amb = self.decide(h['random'], marks)
            keepc.append(code)
            amb_cent.append(amb)
            cands = [code] if not amb else [1, 2, 3]
            for cd in cands:
                t = names.get(cd)
                if t is None or t not in self.tr:
                    continue
                ac = self.tr[t]['alpha_c']
                vel = [h['vel'][k] + ac * h['vdev'][k] for k in range(3)]
                g = self.galaxy(t, h['pos'], vel, 10 ** h['logm'], h['id'])
                res[t].append([not amb, g, 'cent'])
        any_amb_c = any(amb_cent)
        self.conformity_flips = 0
        sats = {t: [] for t in self.tr}
        for p in c['parts']:
            h = c['halos'][p['hidx']]
            kcs = [keepc[p['hidx']]] if not amb_cent[p['hidx']] else [0, 1, 2, 3]
            seen = set()
            if len(kcs) == 1 and kcs[0] in (1, 2) and 'ELG' in self.tr:
                if self.decide(p['random'], self.sat_markers(p, h, 0))[0] != self.decide(p['random'], self.sat_markers(p, h, kcs[0]))[0]:
                    self.conformity_flips += 1
            for kc in kcs:
                marks = self.sat_markers(p, h, kc)
                code, amb = self.decide(p['random'], marks)
                amb = amb or len(kcs) > 1
                cands = [code] if not amb else [1, 2, 3]
                for cd in cands:
                    t = names.get(cd)
                    if t is None or t not in self.tr or (t, cd) in seen:
                        continue
                    seen.add((t, cd))
                    a = self.tr[t]['alpha_s']
                    vel = [h['vel'][k] + a * (p['vel'][k] - h['vel'][k]) for k in range(3)]
                    g = self.galaxy(t, p['pos'], vel, 10 ** h['logm'], h['id'])
                    sats[t].append([not amb, g, 'sat'])
        return res, sats, any_amb_c


def place_edges(case, occ):
    """Move the stored random of the hosts flagged with an 'edge' request onto
    (marker +- k ulps) of the requested slice, using the reference markers."""
    m = Model(case, occ)
    keepc = []
    for h in case['halos']:
        marks = m.cent_markers(h)
        if h.get('edge') and h['edge'][0] in case['tracers']:
            mk = marks[h['edge'][0]]
            if 0.0 < mk < 1.0:
                h['random'] = _ulp_shift(mk, h['edge'][1])
        keepc.append(m.decide(h['random'], marks)[0])
        h['edge'] = None
    for p in case['parts']:
        if p.get('edge') and p['edge'][0] in case['tracers']:
            marks = m.sat_markers(p, case['halos'][p['hidx']], keepc[p['hidx']])
            mk = marks[p['edge'][0]]
            if 0.0 < mk < 1.0:
                p['random'] = _ulp_shift(mk, p['edge'][1])
        p['edge'] = None


def build_inputs(case, dtype=np.float64):
    hs, ps = case['halos'], case['parts']
    H, P = len(hs), len(ps)
    f = lambda key, n=1: np.array([h[key] for h in hs], dtype=dtype).reshape((H, 3) if n == 3 else (H,))
    halo = {
        'hpos': f('pos', 3), 'hvel': f('vel', 3), 'hmass': np.array([10 ** h['logm'] for h in hs], dtype=dtype),
        'hid': np.array([h['id'] for h in hs], dtype=np.int64), 'hmultis': f('multi'), 'hrandoms': f('random'),
        'hveldev': f('vdev', 3), 'hsigma3d': np.ones(H), 'hc': np.ones(H), 'hrvir': np.ones(H),
    }
    if case['want_AB']:
        halo['hdeltac'] = f('deltac')
        halo['hfenv'] = f('fenv')
    if case['want_shear']:
        halo['hshear'] = f('shear')
    g = lambda key, n=1: np.array([p[key] for p in ps], dtype=dtype).reshape((P, 3) if n == 3 else (P,))
    hidx = np.array([p['hidx'] for p in ps], dtype=np.int64)
    part = {
        'ppos': g('pos', 3), 'pvel': g('vel', 3),
        'phvel': halo['hvel'][hidx] if P else np.zeros((0, 3)),
        'phmass': halo['hmass'][hidx] if P else np.zeros(0),
        'phid': halo['hid'][hidx] if P else np.zeros(0, dtype=np.int64),
        'pweights': g('weight'), 'prandoms': g('random'), 'pinds': hidx,
    }
    rk = np.array([p['ranks'] for p in ps], dtype=dtype).reshape(P, 5)
    for k, name in enumerate(['pranks', 'pranksv', 'pranksp', 'pranksr', 'pranksc']):
        part[name] = np.ascontiguousarray(rk[:, k]) if case['enable_ranks'] else np.ones(P)
    if case['want_AB']:
        part['pdeltac'] = halo['hdeltac'][hidx] if P else np.zeros(0)
        part['pfenv'] = halo['hfenv'][hidx] if P else np.zeros(0)
    if case['want_shear']:
        part['pshear'] = halo['hshear'][hidx] if P else np.zeros(0)
    params = {'z': case['z'], 'h': 0.67, 'Lbox': case['L'], 'Mpart': case['Mpart'], 'velz2kms': case['velz2kms'],
              'origin': None if case['origin'] is None else np.array(case['origin'], dtype=np.float64),
              'chunk': -1, 'numslabs': 1}
    return halo, part, params


COLS = ('x', 'y', 'z', 'vx', 'vy', 'vz', 'mass', 'id')


def match(got, ncent, cands_cent, cands_sat, rtol=1e-9):
    """Ordered-subsequence match of the produced rows against the candidate
    list (required candidates must appear, optional ones may).  Returns None
    or a description of the first discrepancy."""
    n = len(np.asarray(got['x']))
    rows = [{c: (float(np.asarray(got[c])[i]) if c != 'id' else int(np.asarray(got[c])[i])) for c in COLS} for i in range(n)]

    def same(g, r):
        if g['id'] != r['id']:
            return False
        for c in COLS[:-1]:
            a, b = g[c], r[c]
            if a != a and b != b:
                continue      # both undefined (a galaxy exactly on the observer has no line of sight: 0/0 in model and code)
            if not (abs(a - b) <= rtol * max(abs(a), abs(b), 1e-300) + 1e-12):
                return False
        return True

    def walk(part_rows, cands, label):
        i = 0
        for req, g, kind in cands:
            if i < len(part_rows) and same(g, part_rows[i]):
                i += 1
            elif req:
                if i < len(part_rows):
                    return {'what': 'row %d of the %s block does not match the next expected galaxy' % (i, label),
                            'got': part_rows[i], 'expected': g}
                return {'what': 'a required %s galaxy is missing at the end' % label, 'expected': g}
        if i < len(part_rows):
            return {'what': 'unexpected extra %s galaxy at row %d' % (label, i), 'got': part_rows[i]}
        return None

    if ncent < 0 or ncent > n:
        return {'what': 'Ncent=%d outside [0,%d]' % (ncent, n)}
    return walk(rows[:ncent], cands_cent, 'central') or walk(rows[ncent:], cands_sat, 'satellite')
