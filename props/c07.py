"""C07 -- parallel TSC equals serial TSC under every thread schedule.

Engine E1.  ``tsc_parallel`` (plain Python, run as it is) drives the simulated
kernels ``partition_parallel`` / ``_tsc_parallel`` / ``_tsc_scatter`` re-compiled
from the working tree into cooperative generators.  Oracles:

* no-conflict invariant: within one parallel region no grid cell is accessed by
  two simulated threads with a value-changing write;
* schedule independence: the grid equals the same code run with one thread, up
  to summation order;
* every conflict is turned into an explicit lost-update schedule (thread A is
  stopped between its load and its store, thread B runs to completion) and the
  resulting grid is compared with the single-thread grid.
"""
import numpy as np

from simcore.core import new_outcome, violation, bump

PID = 'C07'
QUICK_RUNS = 700
QUICK_SECONDS = 150
THOROUGH_SECONDS = 900
CASE_TIMEOUT = 300
SHRINK_SECONDS = 90
LEVEL = 'exploration'
RULE = ('sweep: every (ngrid 1..64 [128 thorough], nthread 1..16, npartition default or 1..ngrid) offered to tsc_parallel '
        'for partition axis 0 (short other axes) and axes 1, 2 (64-cell axis 0), with particles on both sides of every '
        'stripe boundary, under static and cyclic iteration assignment (complete over that box for the accept/reject '
        'decision and the stripe geometry); seeded: random grids/configs/particles under '
        'serial/random-walk/PCT schedules. non-trivial = configuration accepted and >= 2 simulated threads ran tasks; '
        'distinct = distinct (ngrid, nthread, npartition, coord, sort, offset, policy, strategy, switches bucket)')
COMPONENTS = {'real': ['analysis/tsc.py: tsc_parallel (as is), partition_parallel, _tsc_parallel, _tsc_scatter, '
                       '_wrap_inplace, _zeros_parallel executed from the working-tree source as cooperative generators'],
              'stub': ['numba thread pool and scheduler (replaced by the seeded scheduler)']}
ASSUMPTIONS = ['interpreted execution of the kernel source has the same memory-access pattern as the compiled kernel',
               'any assignment of prange iterations to threads is legal (numba documents none)']


# ------------------------------------------------------------ generation ---
def _f(dtype):
    return np.float32 if dtype == 'f4' else np.float64


def _edge_values(box, n, dtype):
    """Coordinates on and just below k*box/n, inside [0, box)."""
    ft = _f(dtype)
    vals = []
    for k in range(n + 1):
        b = ft(box * k / n)
        if b < ft(box):
            vals.append(float(b))
        lo = np.nextafter(b, ft(0))
        if 0 <= lo < ft(box):
            vals.append(float(lo))
        for e_ in (1e-9, 1e-7):            # clearly below the edge in float64, not resolved by a coarser type
            v = ft(float(b) * (1 - e_))
            if 0 <= v < ft(box) and k % 3 == 0:
                vals.append(float(v))
    return vals


def _candidates(n1d, nthread, npartition):
    if npartition:
        return [npartition]
    c = {2 * ((n1d // 2) // 2), 2 * ((n1d // 3) // 2), 2 * (min(n1d // 3, 2 * nthread) // 2)}
    return [x for x in c if x > 1]


def _particles(rng, shape, box, dtype, coord, nthread, npartition, nrandom, offset):
    ft = _f(dtype)
    n1d = shape[coord]
    xs = []
    for np_c in _candidates(n1d, nthread, npartition):
        xs += _edge_values(box, np_c, dtype)
    # cell edges (half-cell positions are where round() flips)
    h = box / n1d
    for k in range(n1d):
        if rng.random() < 0.3:
            xs.append(float(ft((k + 0.5) * h)))
        if rng.random() < 0.15:
            xs.append(float(ft(k * h)))
    # half-cell ties *after* the offset is applied: (x + off) * n / box == k + 1/2 (and its float neighbours)
    off = 0.0 if offset == '0' else 0.5 * h
    for np_c in _candidates(n1d, nthread, npartition):
        for s_ in range(np_c + 1):
            kb = int(round(s_ * n1d / np_c))
            for k in (kb - 1, kb, kb + 1):
                t = ft((k + 0.5) * h - off)
                for v in (t, np.nextafter(t, ft(0)), np.nextafter(t, ft(2 * box))):
                    if 0 <= v < ft(box) and rng.random() < 0.5:
                        xs.append(float(v))
    if len(xs) > 200:
        xs = rng.sample(xs, 200)
    pos = []
    others = [0.0, float(np.nextafter(ft(box), ft(0)))]
    for x in xs:
        p = [rng.random() * box if rng.random() < 0.8 else rng.choice(others) for _ in range(3)]
        p[coord] = x
        pos.append([float(ft(v)) if float(ft(v)) < box else 0.0 for v in p])
    for _ in range(nrandom):
        pos.append([float(ft(rng.random() * box)) % box for _ in range(3)])
    return pos


def gen(rng, tier):
    dtype = rng.choice(['f4', 'f4', 'f8'])
    n1d = rng.choice([rng.randrange(1, 13), rng.randrange(1, 25), rng.randrange(4, 65)] + ([rng.randrange(65, 129)] if tier == 'thorough' else []))
    coord = rng.choice([0, 0, 1, 2])
    shape = [rng.choice([n1d, rng.randrange(2, 9), rng.choice([12, 24, 48, 64])]) for _ in range(3)]
    shape[coord] = n1d
    if rng.random() < 0.6:
        shape = [n1d] * 3 if n1d <= 16 else shape
    nthread = rng.choice([1, 2, 2, 3, 4, 5, 8, 16])
    npartition = None if rng.random() < 0.5 else rng.randrange(1, n1d + 1)
    box = rng.choice([1.0, 1.0, 32.0, 2000.0, 123.456])
    offset = rng.choice(['0', 'half'])
    pos = _particles(rng, shape, box, dtype, coord, nthread, npartition, rng.randrange(0, 150 if tier == 'thorough' else 30), offset)
    if shape[0] * shape[1] * shape[2] > 4096 and len(pos) > 60:
        pos = rng.sample(pos, 60)
    weights = None if rng.random() < 0.5 else [float(_f(dtype)(rng.choice([1.0, 0.5, 2.0, rng.random()]))) for _ in pos]
    from e1_threads.harness import gen_sched
    wrap = rng.random() < 0.5
    if wrap and rng.random() < 0.6:
        # positions one period outside [0, box) (e.g. the Abacus-native [-box/2, box/2) convention): the documented
        # wrap brings them back, and the stripes must be those of the wrapped coordinates
        ft = _f(dtype)
        lo = rng.random() < 0.5
        for p in pos:
            for ax in range(3):
                if rng.random() < 0.08:
                    # negative by less than half an ulp of the box: the wrap rounds it to exactly `box`
                    p[ax] = -box * 2.0 ** rng.choice([-27, -30, -56, -60])
                    continue
                if rng.random() < (0.4 if ax == coord else 0.15):
                    if lo and p[ax] >= 0.5 * box:
                        p[ax] = float(ft(p[ax] - box))
                    elif not lo or rng.random() < 0.3:
                        p[ax] = float(ft(p[ax] + (box if rng.random() < 0.8 or p[ax] < 0 else -box)))
    return {'shape': shape, 'box': box, 'dtype': dtype, 'nthread': nthread, 'npartition': npartition,
            'layout': rng.choice(['C', 'C', 'C', 'cols-view', 'fortran', 'strided', 'readonly']),
            'failed_call_before': rng.random() < 0.15,
            'coord': coord, 'sort': rng.random() < 0.3, 'offset': offset, 'wrap': wrap,
            'pos': pos, 'weights': weights, 'sched': gen_sched(rng), 'poison': rng.choice(['A', 'B'])}


def sweep(tier):
    """Complete over the accept/reject decision and the stripe geometry for
    ngrid 1..NG x (nthread 1..16 with the default npartition) and
    ngrid x npartition 1..ngrid (explicit, nthread in {1, 16}), for the partition
    axis 0 on a grid whose other axes are short, and for partition axes 1 and 2 on
    grids whose axis 0 is long (so that using the wrong axis length is visible)."""
    import random
    NG = 128 if tier == 'thorough' else 64
    rng = random.Random(20260926)
    for coord in (0, 1, 2):
        for n1d in range(1, NG + 1):
            shape = [3, 3, 3] if coord == 0 else [NG, 3, 3]
            shape[coord] = n1d
            if coord == 2:
                shape[1] = 5
            for nthread in range(1, 17):
                for policy in (('static',) if nthread == 1 else ('static', 'cyclic')):
                    if coord and policy == 'static' and nthread > 1:
                        continue
                    yield _sweep_case(rng, shape, nthread, None, policy, coord)
            for npart in range(1, n1d + 1):
                combos = ((1, 'static'), (16, 'static'), (16, 'cyclic')) if coord == 0 else ((16, 'cyclic'),)
                for nthread, policy in combos:
                    yield _sweep_case(rng, shape, nthread, npart, policy, coord)


def _sweep_case(rng, shape, nthread, npart, policy, coord=0):
    n1d = shape[coord]
    box = 1.0
    xs = []
    for np_c in _candidates(n1d, nthread, npart) + ([] if npart else _candidates(shape[0], nthread, None)):
        xs += _edge_values(box, np_c, 'f4')
    h = box / n1d
    off = 0.0 if (n1d + nthread) % 2 else 0.5 * h
    for np_c in _candidates(n1d, nthread, npart):
        for s_ in range(np_c + 1):
            kb = int(round(s_ * n1d / np_c))
            for k in (kb - 1, kb):
                t = np.float32((k + 0.5) * h - off)
                for v in (t, np.nextafter(t, np.float32(0)), np.nextafter(t, np.float32(2))):
                    if 0 <= v < np.float32(box):
                        xs.append(float(v))
    xs = sorted(set(xs))
    if len(xs) > 140:
        xs = xs[::len(xs) // 140 + 1]
    pos = []
    for x in xs:
        p = [0.4, 0.6, 0.3]
        p[coord] = x
        pos.append(p)
    return {'shape': list(shape), 'box': box, 'dtype': 'f4', 'nthread': nthread, 'npartition': npart, 'coord': coord,
            'sort': False, 'offset': '0' if (n1d + nthread) % 2 else 'half', 'wrap': False, 'pos': pos,
            'weights': None, 'sched': {'policy': policy, 'strategy': 'serial', 'seed': n1d * 1000 + nthread},
            'poison': 'A', 'sweep': True}


# ------------------------------------------------------------------ run ----
def _call(tsc, case, pos, weights, nthread, npartition):
    shape = tuple(case['shape'])
    box = case['box']
    off = 0.0 if case['offset'] == '0' else 0.5 * box / shape[case['coord']]
    from e1_threads import harness as H
    lay = case.get('layout', 'C')
    return tsc.tsc_parallel(H.with_layout(pos, lay, writable_needed=case['wrap']), shape, box, weights=H.with_layout(weights, lay),
                            nthread=nthread, wrap=case['wrap'], npartition=npartition, sort=case['sort'],
                            coord=case['coord'], offset=off)


def run(case):
    from abx_sim.analysis import tsc
    from e1_threads import harness as H
    from e1_threads.sched import SIM
    out = new_outcome()
    ft = _f(case['dtype'])
    pos = np.array(case['pos'], dtype=ft).reshape(-1, 3)
    weights = None if case['weights'] is None else np.array(case['weights'], dtype=ft)
    sumw = float(len(pos) if weights is None else np.abs(weights).sum())
    s = case['sched']
    # ---- reference: the same transformed code with one thread, one stripe
    ref, exc, _ = H.run(lambda: _call(tsc, case, pos, weights, 1, 1), {'policy': 'static', 'strategy': 'serial'},
                        poison=case['poison'])
    if exc is not None:
        violation(out, 'raises:' + type(exc).__name__, 'tsc_parallel(nthread=1,npartition=1)', repr(exc)[:300])
        return out
    # ---- the configuration under test
    def under_test():
        if case.get('failed_call_before'):
            # history: a call that is rejected (stripes far too fine) with another thread count, then the valid call
            try:
                _call(tsc, case, pos, weights, min(16, case['nthread'] + 3), max(2, case['shape'][case['coord']]))
            except ValueError:
                pass
        return _call(tsc, case, pos, weights, case['nthread'], case['npartition'])
    res, exc, summ = H.run(under_test, s, poison=case['poison'])
    cfg = [case['shape'][case['coord']], case['nthread'], case['npartition']]
    if isinstance(exc, ValueError) and 'npartition' in str(exc):
        if not case['npartition']:
            # the default choice must always be a configuration the validator accepts
            violation(out, 'default-npartition-rejected', 'tsc_parallel', {'config(n1d,nthread)': cfg[:2], 'error': str(exc)})
            return out
        bump(out['probes'], 'config-rejected')
        out['events'].append(['rejected', cfg])
        return out
    bump(out['probes'], 'config-accepted')
    if SIM.oob_events:
        ev = SIM.oob_events[0]
        violation(out, 'oob', (ev['region'] or 'tsc').split('#')[0], ev)
    elif exc is not None:
        violation(out, 'raises:' + type(exc).__name__, 'tsc_parallel', repr(exc)[:300])
    # C07 says concurrently processed stripes must not update the same grid cell at all: in the two TSC
    # passes a value-preserving update (`+= 0` on an exact half-cell tie) counts as well -- it is the same
    # geometric overlap, one float rounding away from a real deposit.  Elsewhere it stays a probe.
    allc, nbenign = SIM.conflicts(include_benign=True, limit=8)
    conflicts = [c for c in allc if not c['benign'] or '_tsc_parallel' in c['region']][:4]
    nprobe = sum(1 for c in allc if c['benign'] and '_tsc_parallel' not in c['region'])
    if nprobe:
        bump(out['probes'], 'value-preserving-shared-element-outside-tsc', nprobe)
    schedule = H.schedule_rle()
    active = max((sum(1 for c in (R.assign if isinstance(R.assign, list) and R.assign and isinstance(R.assign[0], list) else [])
                      if c) for R in SIM.regions if 'tsc_parallel' in R.name), default=0)
    out['steps'] = summ['steps']
    bump(out['faults'], 'policy=' + s.get('policy', 'static'))
    bump(out['faults'], 'strategy=' + s.get('strategy', 'serial'))
    bump(out['faults'], 'context-switches', summ['switches'])
    for c in conflicts:
        site = c['region'].split('#')[0]
        violation(out, 'conflict', site,
                  {'cell': c['where'], 'threads': c['threads'], 'config(n1d,nthread,npartition)': cfg,
                   'note': 'two concurrently processed stripes update the same element' +
                           (' (with zero weight: exact half-cell tie)' if c['benign'] else '')})
        break
    tol = 8 * float(np.finfo(np.float32).eps) * max(1.0, sumw)
    if res is not None:
        ok, dmax = H.close(res, ref, atol=tol)
        if not ok:
            violation(out, 'schedule-dependent-result', 'tsc_parallel',
                      {'max_abs_diff': dmax, 'tol': tol, 'total': float(res.sum()), 'expected_total': float(ref.sum()),
                       'schedule': schedule[:200]})
        out['events'].append(['grid', cfg, round(float(res.sum()), 3), summ['regions'], summ['switches']])
    # ---- turn the first conflict into a concrete lost update
    for c in conflicts:
        if c['rmw_thread'] is None or c['other_writer'] is None:
            continue
        d = {'region': c['rid'], 'a': c['rmw_thread'], 'b': c['other_writer'], 'steps': c['rmw_step']}
        s2 = dict(H.without_replay(s), strategy='serial')
        res2, exc2, summ2 = H.run(lambda: _call(tsc, case, pos, weights, case['nthread'], case['npartition']), s2,
                                  poison=case['poison'], directed=d)
        if res2 is not None:
            ok2, dmax2 = H.close(res2, ref, atol=tol)
            bump(out['probes'], 'directed-schedule-built')
            if not ok2:
                violation(out, 'lost-update', 'tsc_parallel',
                          {'max_abs_diff': dmax2, 'total': float(res2.sum()), 'expected_total': float(ref.sum()),
                           'directed': d, 'schedule': H.schedule_rle()[:200]})
        break
    if res is not None and active >= 2:
        out['nontrivial'] = [cfg, case['coord'], case['sort'], case['offset'], s.get('policy'), s.get('strategy'),
                             min(summ['switches'], 8)]
    return out


def pin(case):
    from abx_sim.analysis import tsc
    from e1_threads import harness as H
    ft = _f(case['dtype'])
    pos = np.array(case['pos'], dtype=ft).reshape(-1, 3)
    weights = None if case['weights'] is None else np.array(case['weights'], dtype=ft)
    return H.pin_with(lambda c: H.run(lambda: _call(tsc, c, pos, weights, c['nthread'], c['npartition']), c['sched'],
                                      poison=c['poison']), case)


def shrink(case):
    c = dict(case)
    n = len(case['pos'])
    if n > 1:
        for k in (n // 2, n // 4, 1):
            if k >= 1:
                for start in range(0, n, k):
                    keep = case['pos'][:start] + case['pos'][start + k:]
                    if keep:
                        w = None if case['weights'] is None else case['weights'][:start] + case['weights'][start + k:]
                        yield dict(c, pos=keep, weights=w)
    if case['weights'] is not None:
        yield dict(c, weights=None)
    if case['sort']:
        yield dict(c, sort=False)
    if case['wrap']:
        yield dict(c, wrap=False)
    if case.get('layout', 'C') != 'C':
        yield dict(c, layout='C')
    if case['offset'] != '0':
        yield dict(c, offset='0')
    if case['sched'].get('strategy') != 'serial' and 'replay' not in case['sched']:
        yield dict(c, sched=dict(case['sched'], strategy='serial'))
    if case['dtype'] != 'f4':
        yield dict(c, dtype='f4')
    sh = case['shape']
    for ax in range(3):
        if ax != case['coord'] and sh[ax] > 3:
            s2 = list(sh)
            s2[ax] = 3
            yield dict(c, shape=s2)
