"""C17 -- partition_parallel returns a stripe-ordered permutation of its input.

Engine E1: the three prange regions of ``partition_parallel`` (histogram,
scatter, optional per-stripe sort) run as simulated threads; the allocator is
poisoned, so an output slot that is never written shows up as poison (and as a
difference between the two poison patterns).
"""
import numpy as np

from simcore.core import new_outcome, violation, bump

PID = 'C17'
QUICK_RUNS = 1200
QUICK_SECONDS = 120
THOROUGH_SECONDS = 900
CASE_TIMEOUT = 300
LEVEL = 'exploration'
RULE = ('case = (particle list with duplicates / values on stripe boundaries / the value BoxSize, npartition, coord, '
        'dtype, weights, sort, nthread incl. nthread > N, schedule config); non-trivial = N >= 2 and >= 2 simulated '
        'threads owned particles; distinct = distinct (N bucket, npartition, coord, dtype, weights, sort, nthread, '
        'policy, strategy, switches bucket)')
COMPONENTS = {'real': ['analysis/tsc.py: partition_parallel from the working-tree source as cooperative generators; '
                       'the compiled partition_parallel on real threads for a fifth of the cases (oracle only)'],
              'stub': ['numba thread pool and scheduler']}
ASSUMPTIONS = ['stripe membership is compared with floor(x*npartition/BoxSize) computed in float64; a particle within '
               '4 ulps (of the position dtype) of a stripe boundary may be in either neighbour unless BoxSize/npartition '
               'is a power of two']


def _f(dtype):
    return np.float32 if dtype == 'f4' else np.float64


def gen(rng, tier):
    from e1_threads.harness import gen_sched
    dtype = rng.choice(['f4', 'f8'])
    ft = _f(dtype)
    npart = rng.choice([1, 2, 3, 4, 5, 8, 16, rng.randrange(1, 41)])
    box = rng.choice([1.0, 1.0, 8.0, 2000.0, 500.0, 123.456, 3.0])
    N = rng.choice([0, 1, 2, 3, 5, rng.randrange(0, 40), rng.randrange(0, 201)] + ([rng.randrange(200, 1500)] if tier == 'thorough' else []))
    if rng.random() < 0.02:
        N = rng.choice([4096, 8192, 5000, rng.randrange(3000, 12000)])      # sizes beyond any small-block threshold
    coord = rng.choice([0, 1, 2])
    pool = []
    for k in range(npart + 1):
        b = ft(box * k / npart)
        pool += [float(b), float(np.nextafter(b, ft(0))), float(np.nextafter(b, ft(2 * box)))]
        # clearly on one side of the edge for the position dtype, but closer than a coarser float type resolves
        pool += [float(ft(float(b) * (1 + s_ * e_))) for s_ in (-1, 1) for e_ in (1e-9, 1e-7, 3e-6)]
    pool = [v for v in pool if 0.0 <= v <= box]
    pos = []
    for _ in range(N):
        r = rng.random()
        if r < 0.35:
            x = rng.choice(pool)
        elif r < 0.45 and pos:
            x = rng.choice(pos)[coord]          # duplicate coordinate
        else:
            x = float(ft(rng.random() * box))
        p = [float(ft(rng.random() * box)) for _ in range(3)]
        p[coord] = min(x, box)
        if rng.random() < 0.08 and pos:
            p = list(rng.choice(pos))            # exact duplicate row
        pos.append(p)
    weights = None if rng.random() < 0.4 else [rng.choice([1.0, 2.0, 0.0, rng.random()]) + i * 1e-3 + 1e-9 * (i % 7)
                                                for i in range(N)]
    return {'pos': pos, 'weights': weights, 'npartition': npart, 'box': box, 'coord': coord, 'dtype': dtype,
            'sort': rng.random() < 0.4, 'nthread': rng.choice([1, 2, 3, 4, 5, 7, 8, 16, 16, rng.randrange(1, 17)]),
            'sched': gen_sched(rng), 'compiled': rng.random() < 0.2, 'edit_between_calls': rng.random() < 0.3, 'failed_call_before': rng.random() < 0.15,
            'layout': rng.choice(['C', 'C', 'C', 'cols-view', 'fortran', 'strided', 'readonly']),
            'wdtype': rng.choice([dtype, dtype, 'f4', 'f8'])}


def sweep(tier):
    """Complete over (N 0..NMAX, nthread 1..16): the per-thread block boundaries only misalign for
    particular (size, thread count) pairs."""
    import random
    NMAX = 260 if tier == 'thorough' else 130
    rng = random.Random(17)
    for nthread in range(1, 17):
        for N in range(0, NMAX + 1):
            pos = [[((i * 37) % 101) / 101.0 * 8.0, ((i * 11) % 13) / 13.0 * 8.0, ((i * 7) % 5) / 5.0 * 8.0] for i in range(N)]
            yield {'pos': pos, 'weights': [1.0 + i for i in range(N)] if (N + nthread) % 2 else None, 'npartition': 4,
                   'box': 8.0, 'coord': 0, 'dtype': 'f4', 'sort': False, 'nthread': nthread,
                   'sched': {'policy': 'static', 'strategy': 'serial', 'seed': N * 17 + nthread}, 'compiled': False,
                   'wdtype': 'f4', 'sweep': True}


def _oracle(out, site, case, pos, weights, res):
    ft = _f(case['dtype'])
    npart, box, coord = case['npartition'], case['box'], case['coord']
    N = len(pos)
    try:
        psort, starts, wsort = res
    except Exception:
        violation(out, 'bad-return', site, 'expected (partitioned, starts, wpart), got %r' % (type(res),))
        return
    psort = np.asarray(psort)
    starts = np.asarray(starts)
    if psort.shape != pos.shape or psort.dtype != pos.dtype:
        violation(out, 'bad-shape', site, 'partitioned %s %s vs input %s %s' % (psort.shape, psort.dtype, pos.shape, pos.dtype))
        return
    if (weights is None) != (wsort is None):
        violation(out, 'weights-presence', site, 'wpart is %s' % ('None' if wsort is None else 'array'))
        return
    if weights is not None and (np.asarray(wsort).dtype != weights.dtype or np.asarray(wsort).shape != weights.shape):
        violation(out, 'weights-dtype-changed', site, 'weights %s -> wpart %s' % (weights.dtype, np.asarray(wsort).dtype))
        return
    if starts.shape != (npart + 1,):
        violation(out, 'bad-starts', site, 'shape %s' % (starts.shape,))
        return
    st = starts.astype(np.int64)
    if st[0] != 0 or st[-1] != N or (np.diff(st) < 0).any():
        violation(out, 'bad-starts', site, 'starts=%s N=%d' % (st.tolist()[:12], N))
        return
    # permutation with weights travelling with positions
    rows_in = np.column_stack([pos.astype(np.float64), (weights if weights is not None else np.zeros(N)).astype(np.float64)]) \
        if N else np.zeros((0, 4))
    rows_out = np.column_stack([psort.astype(np.float64), (np.asarray(wsort) if wsort is not None else np.zeros(N)).astype(np.float64)]) \
        if N else np.zeros((0, 4))
    if N:
        a = rows_in[np.lexsort(rows_in.T[::-1])]
        b = rows_out[np.lexsort(rows_out.T[::-1])]
        same = np.array_equal(a, b) or (np.isnan(b).any() is False and False)
        if not same:
            nbad = int((a != b).any(axis=1).sum())
            kind = 'uninitialised-row' if (np.isnan(rows_out).any() or (np.abs(rows_out) > 1e30).any()) else 'not-a-permutation'
            violation(out, kind, site, '%d of %d rows differ between input and output multisets' % (nbad, N))
            return
    # stripe membership
    x = psort[:, coord].astype(np.float64) if N else np.zeros(0)
    t = x * npart / box
    stripe = np.repeat(np.arange(npart), np.diff(st))
    exact = float(np.log2(box / npart)).is_integer()
    delta = 0.0 if exact else 4 * float(np.finfo(ft).eps)
    lo = np.clip(np.floor(t * (1 - delta)), 0, npart - 1)
    hi = np.clip(np.floor(t * (1 + delta)), 0, npart - 1)
    bad = (stripe < lo) | (stripe > hi)
    if bad.any():
        i = int(np.nonzero(bad)[0][0])
        violation(out, 'wrong-stripe', site, 'x=%r is in stripe %d, floor(x*np/L)=%d (np=%d, L=%r)' % (
            float(x[i]), int(stripe[i]), int(np.floor(t[i])), npart, box))
    if (lo != hi).any():
        bump(out['probes'], 'boundary-ambiguous-particle', int((lo != hi).sum()))
    if case['sort']:
        for s in range(npart):
            seg = x[st[s]:st[s + 1]]
            if len(seg) > 1 and (np.diff(seg) < 0).any():
                violation(out, 'stripe-not-sorted', site, 'stripe %d' % s)
                break


def run(case):
    from abx_sim.analysis import tsc
    from e1_threads import harness as H
    from e1_threads.sched import SIM
    out = new_outcome()
    ft = _f(case['dtype'])
    pos = np.array(case['pos'], dtype=ft).reshape(-1, 3)
    weights = None if case['weights'] is None else np.array(case['weights'], dtype=_f(case.get('wdtype', case['dtype'])))
    N = len(pos)
    s = case['sched']
    results = {}
    for poison in ('A', 'B'):
        if case.get('failed_call_before') and N:
            # history: a call with the same arguments that dies midway (positions with two columns only) comes first
            H.run(lambda: tsc.partition_parallel(pos[:, :2].copy(), case['npartition'], case['box'], weights=None,
                                                 coord=case['coord'], nthread=case['nthread'], sort=case['sort']),
                  {'policy': 'static', 'strategy': 'serial'}, poison=poison)
        p_in = H.with_layout(pos, case.get('layout', 'C'), writable_needed=bool(case.get('edit_between_calls')))
        w_in = H.with_layout(weights, case.get('layout', 'C'), writable_needed=bool(case.get('edit_between_calls')))
        res, exc, summ = H.run(lambda: tsc.partition_parallel(p_in, case['npartition'], case['box'], weights=w_in,
                                                              coord=case['coord'], nthread=case['nthread'],
                                                              sort=case['sort']), s, poison=poison)
        site = 'partition_parallel'
        if SIM.oob_events:
            ev = SIM.oob_events[0]
            violation(out, 'oob', (ev['region'] or site).split('#')[0], ev)
            return out
        if exc is not None:
            violation(out, 'raises:' + type(exc).__name__, site, repr(exc)[:300])
            return out
        if not np.array_equal(np.asarray(p_in), pos) or (weights is not None and not np.array_equal(np.asarray(w_in), weights)):
            violation(out, 'input-modified', site, 'the caller arrays were changed')
        conflicts, nben = SIM.conflicts(limit=2)
        for c in conflicts:
            violation(out, 'conflict', c['region'].split('#')[0], {'where': c['where'], 'threads': c['threads']})
            break
        if poison == 'A':
            _oracle(out, site, case, pos, weights, res)
            out['steps'] = summ['steps']
            out['events'].append(['sim', N, case['npartition'], case['nthread'], summ['regions'], summ['switches']])
            bump(out['faults'], 'policy=' + s.get('policy', 'static'))
            bump(out['faults'], 'strategy=' + s.get('strategy', 'serial'))
            bump(out['faults'], 'context-switches', summ['switches'])
            if case['nthread'] > N:
                bump(out['probes'], 'more-threads-than-particles')
            if N == 0:
                bump(out['probes'], 'empty-input')
            sw = summ['switches']
        # (copies: an output may legitimately be the caller's own array, which the history below edits)
        results[poison] = tuple(None if x is None else np.array(np.asarray(x), copy=True) for x in res)
        if out['violations']:
            return out
        if poison == 'A' and case.get('edit_between_calls') and N:
            # history: the caller edits the *same* array objects in place and partitions again with identical arguments
            pos2 = ((pos.astype(np.float64)[::-1] + 0.37 * case['box']) % case['box']).astype(ft)
            pos2[pos2 >= ft(case['box'])] = 0
            p_in[...] = pos2
            w2 = None
            if w_in is not None:
                w2 = (weights[::-1] * 2).astype(weights.dtype)
                w_in[...] = w2
            res2, exc2, _ = H.run(lambda: tsc.partition_parallel(p_in, case['npartition'], case['box'], weights=w_in,
                                                                  coord=case['coord'], nthread=case['nthread'],
                                                                  sort=case['sort']), H.without_replay(s), poison=poison)
            if exc2 is not None:
                violation(out, 'raises:' + type(exc2).__name__, site + ':second-call-on-edited-arrays', repr(exc2)[:300])
                return out
            _oracle(out, site + ':second-call-on-edited-arrays', case, pos2, w2, res2)
            bump(out['faults'], 'arrays-edited-in-place-between-calls')
            if out['violations']:
                return out
    a, b = results['A'], results['B']
    same = all((x is None and y is None) or (x is not None and y is not None and
                                              np.asarray(x).tobytes() == np.asarray(y).tobytes())
               for x, y in zip(a, b))
    if not same:
        violation(out, 'depends-on-uninitialised-memory', 'partition_parallel',
                  'outputs differ between the two allocator poison patterns')
    bump(out['faults'], 'poisoned-allocations')
    if case.get('compiled'):
        _compiled(case, pos, weights, out)
    if N >= 2 and min(case['nthread'], N) >= 2:
        out['nontrivial'] = [min(N, 50) // 10, case['npartition'], case['coord'], case['dtype'], weights is not None,
                             case['sort'], case['nthread'], s.get('policy'), s.get('strategy'), min(sw, 8)]
    return out


def _compiled(case, pos, weights, out):
    """The repository's compiled kernel on real threads: the oracle does not
    depend on the schedule, so it applies whatever numba's pool does."""
    from abacusnbody.analysis import tsc as rtsc
    p_in = pos.copy()
    w_in = None if weights is None else weights.copy()
    try:
        res = rtsc.partition_parallel(p_in, case['npartition'], case['box'], weights=w_in, coord=case['coord'],
                                      nthread=case['nthread'], sort=case['sort'])
    except Exception as e:
        violation(out, 'raises:' + type(e).__name__, 'partition_parallel[compiled]', repr(e)[:300])
        return
    bump(out['probes'], 'compiled-crosscheck')
    if not np.array_equal(p_in, pos):
        violation(out, 'input-modified', 'partition_parallel[compiled]', 'pos changed')
    _oracle(out, 'partition_parallel[compiled]', case, pos, weights, res)


def pin(case):
    from abx_sim.analysis import tsc
    from e1_threads import harness as H
    ft = _f(case['dtype'])
    pos = np.array(case['pos'], dtype=ft).reshape(-1, 3)
    weights = None if case['weights'] is None else np.array(case['weights'], dtype=_f(case.get('wdtype', case['dtype'])))
    return H.pin_with(lambda c: H.run(lambda: tsc.partition_parallel(pos.copy(), c['npartition'], c['box'],
                                                                     weights=None if weights is None else weights.copy(),
                                                                     coord=c['coord'], nthread=c['nthread'], sort=c['sort']),
                                      c['sched']), case)


def shrink(case):
    c = dict(case)
    n = len(case['pos'])
    for k in (n // 2, n // 4, 1):
        if k >= 1 and n > 1:
            for start in range(0, n, k):
                keep = case['pos'][:start] + case['pos'][start + k:]
                w = None if case['weights'] is None else case['weights'][:start] + case['weights'][start + k:]
                yield dict(c, pos=keep, weights=w)
    if case['weights'] is not None:
        yield dict(c, weights=None)
    if case['sort']:
        yield dict(c, sort=False)
    if case.get('compiled'):
        yield dict(c, compiled=False)
    if case['nthread'] > 2:
        yield dict(c, nthread=2)
    if case['npartition'] > 2:
        yield dict(c, npartition=2)
    if case['sched'].get('strategy') != 'serial':
        yield dict(c, sched=dict(case['sched'], strategy='serial'))
    if case['dtype'] != 'f4':
        yield dict(c, dtype='f4')
