"""C02 -- a halo column's values do not depend on what else was requested.

Engine E2.  One world, many loads of the same files: the target column alone,
together with seeded other columns before / after it, through 'all' and the
default set, with and without subsamples, cleaned on and off.  The poisoned
allocator (S2) is essential here: derived columns go through per-file temporary
columns created with np.empty, so a wrong dtype, a missing dependency or a
read-before-fill is visible and repeatable.
"""
import copy

import numpy as np

from simcore.core import new_outcome, violation, bump

PID = 'C02'
QUICK_RUNS = 160
QUICK_SECONDS = 160
THOROUGH_SECONDS = 900
CASE_TIMEOUT = 400
SHRINK_SECONDS = 120
LEVEL = 'exploration'
RULE = ('case = (world; 3-6 target columns drawn from every valid name (user columns, cleaning / main-progenitor columns '
        'when cleaned), each loaded alone, with 1-4 seeded other columns in two orders, through "all" and the default; '
        'with and without subsamples; cleaned on/off; convert_units; knobs). non-trivial = >= 1 halo row and >= 4 loads '
        'compared; distinct = distinct (target column family set, cleaned, subsample kind, convert_units, rows bucket)')
COMPONENTS = {'real': ['data/compaso_halo_catalog.py: _setup_fields, _get_halo_fields_dependencies, _read_halo_info '
                       '(extra_fields temporaries), _load_halo_field, eigenvector decoder'],
              'stub': ['Abacus simulation output (stub writer)', 'blosc codec']}
ASSUMPTIONS = ['npstart*/npout* (and their _merge companions) are defined to change when subsamples are loaded (C01) and '
               'are excluded from the with/without-subsamples comparison only',
               'with cleaned=True the name N denotes N_total by documentation']

INDEXISH = {'npstartA', 'npstartB', 'npoutA', 'npoutB', 'npstartA_merge', 'npstartB_merge', 'npoutA_merge', 'npoutB_merge'}


def valid_columns(cleaned):
    from e2_world import world as W
    cols = ['id', 'npstartA', 'npstartB', 'npoutA', 'npoutB', 'ntaggedA', 'ntaggedB', 'N', 'L2_N', 'L0_N',
            'SO_central_particle', 'SO_central_density', 'SO_radius', 'SO_L2max_central_particle',
            'SO_L2max_central_density', 'SO_L2max_radius']
    for com in W.COMS:
        cols += [n + com for n in ('x', 'v', 'sigmav3d', 'meanSpeed', 'sigmav3d_r50', 'meanSpeed_r50', 'r100', 'vcirc_max')]
        cols += [r + com for r in W.RNAMES]
        cols += ['sigmav%s%s' % (k, com) for k in ('Min', 'Mid', 'Maj', 'rad', 'tan')]
        cols += ['sigmar' + com, 'sigman' + com]
        cols += ['%s_eigenvecs%s%s' % (t, w, com) for t in ('sigmar', 'sigmav', 'sigman') for w in ('Min', 'Mid', 'Maj')]
    if cleaned:
        cols += ['npstartA_merge', 'npstartB_merge', 'npoutA_merge', 'npoutB_merge', 'N_total', 'N_merge', 'haloindex',
                 'is_merged_to', 'N_mainprog', 'vcirc_max_L2com_mainprog', 'sigmav3d_L2com_mainprog',
                 'haloindex_mainprog', 'v_L2com_mainprog']
    return cols


DERIVED_BIAS = ['sigmavMid_com', 'sigmavMid_L2com', 'r50_com', 'sigmar_L2com', 'sigmav_eigenvecsMid_com',
                'sigman_eigenvecsMaj_L2com', 'rvcirc_max_com', 'sigmavtan_L2com']


def gen(rng, tier):
    from e2_world import world as W
    from e2_world import catalog as C
    lc = rng.random() < 0.12
    world = W.gen_world(rng, max_slabs=2, max_halos=4, max_parts=2, lc=lc)
    cleaned = bool(world['cleaned'] and rng.random() < 0.6)
    cols = valid_columns(cleaned)
    if lc:
        cols = [c for c in cols if 'L2' in c] + ['N', 'N_interp', 'index_halo', 'origin', 'pos_avg', 'pos_interp', 'vel_avg',
                                                  'vel_interp', 'redshift_interp', 'npstartA', 'npoutA']
    targets = []
    for _ in range(rng.randrange(3, 7)):
        c = rng.choice([d for d in DERIVED_BIAS if d in cols]) if rng.random() < 0.4 else rng.choice(cols)
        if c not in targets:
            targets.append(c)
    plans = []
    for c in targets:
        others = [o for o in rng.sample(cols, rng.randrange(1, 5)) if o != c]
        plans.append({'col': c, 'others': others})
    sub = rng.choice([False, {'A': True, 'pid': True}, {'B': True, 'pos': True}, {'A': True, 'B': True, 'rv': True}, True])
    if lc and isinstance(sub, dict) and 'A' not in sub:
        sub = {'A': True, 'pos': True}
    return {'world': world, 'knobs': C.gen_knobs(rng), 'cleaned': cleaned, 'plans': plans, 'subsamples': sub,
            'convert_units': rng.random() < 0.8,
            # the same list object is handed to every load that uses that request (a user keeps one `fields` list)
            'share_request_objects': rng.random() < 0.5}


def _col_bytes(t, c):
    a = np.asarray(t[c])
    return (str(a.dtype), a.shape, a.tobytes())


def run(case):
    from e2_world import world as W
    from e2_world import catalog as C
    out = new_outcome()
    world, knobs = case['world'], case['knobs']
    nrows = sum(len(s['halos']) for s in world['slabs'])
    nloads = 0
    with C.scratch() as root:
        gd, written = W.write_world(world, root, knobs)

        C.prelude(world, knobs, root, out['faults'])
        C.failed_loads_before(gd, knobs, out['faults'])
        def load(fields, sub, label):
            nonlocal nloads
            nloads += 1
            try:
                with C.environment(knobs, out['faults'] if nloads == 1 else None):
                    cat = C.load(gd, cleaned=case['cleaned'] or bool(world.get('lc')), subsamples=copy.deepcopy(sub),
                                 fields=fields if case.get('share_request_objects') else copy.deepcopy(fields),
                                 convert_units=case['convert_units'])
                return cat.halos
            except Exception as e:
                kind = 'raises:' + type(e).__name__
                violation(out, kind, 'CompaSOHaloCatalog(%s%s)' % (label, ',subsamples' if sub else ''),
                          {'fields': fields if isinstance(fields, str) else list(fields), 'subsamples': sub,
                           'cleaned': case['cleaned'], 'error': repr(e)[:300]})
                return None

        full = load('all', False, 'fields=all')
        if full is None:
            return out
        if knobs.get('prelude_seed') is not None:
            # "depend only on the catalog files and the unit option": the same load in a process without history
            try:
                fresh = C.fresh_process_columns(gd, cleaned=case['cleaned'] or bool(world.get('lc')), subsamples=False, fields='all',
                                                convert_units=case['convert_units'])
            except RuntimeError as e:
                out['harness'] = str(e)
                return out
            mine = C.column_digests(full)
            bump(out['faults'], 'fresh-process-reference')
            for c in sorted(set(mine) | set(fresh)):
                if mine.get(c) != fresh.get(c):
                    violation(out, 'column-depends-on-process-history', 'halos[%s]' % _family(c),
                              {'column': c, 'history': 'another catalogue (same BoxSize, other VelZSpace_to_kms) loaded before'})
                    return out
        default = load('DEFAULT_FIELDS', False, 'fields=default')
        if default is None:
            return out
        for c in default.colnames:
            if c in full.colnames and _col_bytes(default, c) != _col_bytes(full, c):
                violation(out, 'column-depends-on-request', 'halos[%s]' % c, 'default set vs all')
                return out
        for plan in case['plans']:
            c = plan['col']
            want_name = c
            if c == 'N_total' and case['cleaned']:
                want_name = 'N'            # documented rename for cleaned catalogues
            variants = [([c], 'fields=[col]'), ([c] + plan['others'], 'fields=[col,others]'),
                        (plan['others'] + [c], 'fields=[others,col]')]
            ref = _col_bytes(full, want_name) if want_name in full.colnames else None
            if ref is None:
                violation(out, 'column-missing-from-all', 'halos[%s]' % c, "fields='all' does not provide it")
                return out
            for fields, label in variants:
                for sub in ([False, case['subsamples']] if case['subsamples'] else [False]):
                    t = load(fields, sub, label)
                    if t is None:
                        return out
                    if sub and want_name in INDEXISH:
                        continue   # consumed / re-indexed by definition when subsamples are loaded (C01)
                    if want_name not in t.colnames:
                        violation(out, 'requested-column-missing', 'halos[%s]' % c, {'fields': fields, 'got': t.colnames[:8]})
                        return out
                    if len(t) != nrows:
                        violation(out, 'row-count', 'CompaSOHaloCatalog', '%d rows, expected %d' % (len(t), nrows))
                        return out
                    if _col_bytes(t, want_name) != ref:
                        a = np.asarray(t[want_name]).astype(np.float64).ravel()
                        b = np.asarray(full[want_name]).astype(np.float64).ravel()
                        violation(out, 'column-depends-on-request', 'halos[%s]' % _family(c),
                                  {'column': c, 'fields': fields, 'subsamples': sub, 'cleaned': case['cleaned'],
                                   'alone': a[:3].tolist(), 'all': b[:3].tolist()})
                        return out
    bump(out['probes'], 'loads-compared', nloads)
    if case['subsamples']:
        bump(out['probes'], 'with-and-without-subsamples')
    if world.get('lc'):
        bump(out['probes'], 'light-cone-layout')
    if any(p['col'] in DERIVED_BIAS for p in case['plans']):
        bump(out['probes'], 'derived-column-with-hidden-dependencies')
    out['events'].append(['cols', [p['col'] for p in case['plans']], nloads, nrows, case['cleaned']])
    out['steps'] = nloads
    if nrows >= 1 and nloads >= 4:
        sub = case['subsamples']
        out['nontrivial'] = [sorted({_family(p['col']) for p in case['plans']}), case['cleaned'],
                             sorted(sub) if isinstance(sub, dict) else sub, case['convert_units'], min(nrows, 6) // 2]
    return out


def _family(name):
    import re
    m = re.fullmatch(r'(.*?)(_(?:L2)?com)(.*)', name)
    stem = (m[1] + m[3]) if m else name
    return re.sub(r'^r\d{1,2}$', 'rNN', stem)


def shrink(case):
    c = copy.deepcopy(case)
    for i in range(len(case['plans'])):
        if len(case['plans']) > 1:
            yield dict(c, plans=case['plans'][:i] + case['plans'][i + 1:])
    for i, p in enumerate(case['plans']):
        for j in range(len(p['others'])):
            pl = copy.deepcopy(case['plans'])
            del pl[i]['others'][j]
            yield dict(c, plans=pl)
    if case['subsamples']:
        yield dict(c, subsamples=False)
        if case['subsamples'] is True or len(case['subsamples']) > 2:
            yield dict(c, subsamples={'A': True, 'pid': True})
    w = case['world']
    if len(w['slabs']) > 1:
        for i in range(len(w['slabs'])):
            w2 = copy.deepcopy(w)
            del w2['slabs'][i]
            yield dict(c, world=w2)
    for i, s in enumerate(w['slabs']):
        for j in range(len(s['halos'])):
            w2 = copy.deepcopy(w)
            del w2['slabs'][i]['halos'][j]
            yield dict(c, world=w2)
    k = case['knobs']
    for key, val in (('compression', None), ('io_block', None), ('junk', False), ('shuffle_glob', False)):
        if k[key] != val:
            yield dict(c, knobs=dict(k, **{key: val}))
    if case['cleaned']:
        yield dict(c, cleaned=False)
