"""C20 -- pipe_asdf emits count, width and the concatenated raw bytes per field.

Engine E2: the input files live on simulated storage; the output pipe is an
in-memory recording sink passed through the existing ``pipe=`` argument, so the
second clause ("a missing file or field is reported before any byte is
written") is an ordering property over the recorded I/O history.  Fault: a
missing file or a missing field at a seeded position of the request.
"""
import copy
import os
import struct

import numpy as np

from simcore.core import new_outcome, violation, bump

PID = 'C20'
QUICK_RUNS = 2500
QUICK_SECONDS = 120
THOROUGH_SECONDS = 900
CASE_TIMEOUT = 300
LEVEL = 'exploration'
RULE = ('case = (1-4 files x 1-5 columns: 1-D and multi-dimensional, item widths 1..16, empty columns, different lengths per '
        'file; field request order; compression on/off; io_block_size; fault: none / missing file at position k / missing '
        'field at position k in file j). non-trivial = >= 2 files or >= 2 fields; distinct = distinct (files, fields, '
        'dtype set, fault kind+position, compression, io_block)')
COMPONENTS = {'real': ['data/pipe_asdf.py unpack_to_pipe; asdf block reader; data/asdf.py framing'],
              'stub': ['the client end of the pipe (recording sink through the pipe= argument)', 'blosc codec']}
ASSUMPTIONS = ['wire format as documented in the module docstring: int64 count, int32 width, count*width bytes, per field',
               'count = number of primitive values (product of the shape), width = itemsize of the primitive dtype']

DTYPES = ['u1', 'i2', 'f4', 'f8', 'u8', 'c16', '>f4', '>i8', '>u2']      # stored byte order is part of "raw bytes"


class Sink:
    """Recording pipe: every call is an event of the I/O history."""

    def __init__(self):
        self.events = []
        self.closed = False

    def isatty(self):
        self.events.append(('isatty',))
        return False

    def write(self, b):
        if self.closed:
            raise ValueError('write to closed pipe')
        data = b if isinstance(b, bytes) else memoryview(b).tobytes()   # what a real pipe would receive
        self.events.append(('write', data))
        return len(data)

    def flush(self):
        self.events.append(('flush',))

    def close(self):
        self.events.append(('close',))
        self.closed = True

    def written(self):
        return b''.join(e[1] for e in self.events if e[0] == 'write')


def gen(rng, tier):
    from e2_world import catalog as C
    nfiles = rng.randrange(1, 5)
    ncols = rng.randrange(1, 6)
    cols = []
    for k in range(ncols):
        cols.append({'name': 'col%d' % k, 'dtype': rng.choice(DTYPES), 'inner': rng.choice([[], [], [3], [2, 2], [9]])})
    files = []
    for i in range(nfiles):
        files.append({'name': 'f%d.asdf' % i, 'rows': [rng.choice([0, 1, 2, rng.randrange(0, 30)]) for _ in cols],
                      'seed': rng.randrange(1 << 30)})
    if rng.random() < 0.03:
        # one large multi-dimensional (and one large 1-D) column: several MiB in a single file, so that any
        # chunked / buffered write path of the pipe is exercised (small columns go out in one write)
        cols[0] = {'name': 'col0', 'dtype': rng.choice(['f4', 'f8']), 'inner': rng.choice([[3], [3], [2, 2]])}
        files[rng.randrange(nfiles)]['rows'][0] = rng.randrange(360000, 450000)
        if ncols > 1:
            cols[1] = {'name': 'col1', 'dtype': 'u8', 'inner': []}
            files[rng.randrange(nfiles)]['rows'][1] = rng.randrange(540000, 700000)
    k = rng.randrange(1, ncols + 1)
    request = rng.sample([c['name'] for c in cols], k)
    if any(r > 100000 for f in files for r in f['rows']) and 'col0' not in request:
        request.insert(rng.randrange(len(request) + 1), 'col0')
    if rng.random() < 0.15:
        # a field may be requested more than once (-f id -f pos -f id): one record per request, in request order
        request.insert(rng.randrange(len(request) + 1), rng.choice(request))
    fault = rng.choice([None, None, 'missing-file', 'missing-field'])
    f = {'kind': fault}
    if fault == 'missing-file':
        f['pos'] = rng.randrange(0, nfiles + 1)
    elif fault == 'missing-field':
        f['pos'] = rng.randrange(0, len(request) + 1)
        f['file'] = rng.randrange(nfiles)         # -1 would mean "in no file"
        f['everywhere'] = rng.random() < 0.3
    return {'cols': cols, 'files': files, 'request': request, 'fault': f, 'knobs': C.gen_knobs(rng),
            'failed_call_before': rng.random() < 0.2,
            'prior_call': rng.random() < 0.2 and not any(r > 100000 for fl in files for r in fl['rows'])}


def sweep(tier):
    """Columns whose byte size in one file is exactly a power of two (1..32 MiB) or a small multiple of one: the
    sizes at which a chunked / buffered write loop of the pipe has an empty, or a full, last piece."""
    import random
    from e2_world import catalog as C
    sizes = [(1 << k, 'u8', []) for k in range(20, 26)] + [(1 << 24, 'f4', [2, 2]), (3 << 23, 'u8', []), (1 << 22, 'u2', [])]
    if tier == 'thorough':
        sizes += [(1 << 26, 'u8', []), (5 << 22, 'f8', [2, 2]), ((1 << 24) + 8, 'u8', []), ((1 << 24) - 8, 'u8', [])]
    for i, (nbytes, dt, inner) in enumerate(sizes):
        rowbytes = np.dtype(dt).itemsize * int(np.prod(inner or [1]))
        rows = nbytes // rowbytes
        cols = [{'name': 'col0', 'dtype': dt, 'inner': inner}, {'name': 'col1', 'dtype': 'i4', 'inner': []}]
        files = [{'name': 'f0.asdf', 'rows': [rows, 3], 'seed': 100 + i}]
        if i % 2:
            files.append({'name': 'f1.asdf', 'rows': [5, 0], 'seed': 200 + i})
        yield {'cols': cols, 'files': files, 'request': ['col0', 'col1'], 'fault': {'kind': None},
               'knobs': C.gen_knobs(random.Random(i)), 'failed_call_before': False, 'prior_call': False}


def _array(col, rows, seed):
    r = np.random.default_rng(seed)
    shape = (rows,) + tuple(col['inner'])
    dt = np.dtype(col['dtype'])
    n = int(np.prod(shape))
    raw = r.integers(1, 255, n * dt.itemsize, dtype=np.uint8)
    if dt.byteorder == '>':
        base = np.dtype(dt.str[1:])
        if base.kind == 'f':
            return (r.random(n) * 100).astype(dt).reshape(shape)
        return r.integers(1, 255, n).astype(dt).reshape(shape) * (257 if base.itemsize > 1 else 1)
    if dt.kind in 'fc':
        # avoid NaN payloads being canonicalised anywhere: use small finite numbers
        a = (r.random(n * (2 if dt.kind == 'c' else 1)) * 100).astype('f8' if dt.itemsize in (8, 16) else 'f4')
        return a.view(dt).reshape(shape)
    return raw.view(dt).reshape(shape)


def parse_stream(b, nfields):
    """Independent reader of the documented wire format."""
    out, pos = [], 0
    for _ in range(nfields):
        if pos + 12 > len(b):
            raise ValueError('stream ends inside a field header at %d' % pos)
        n, = struct.unpack_from('<q', b, pos)
        w, = struct.unpack_from('<i', b, pos + 8)
        pos += 12
        if n < 0 or w <= 0 or pos + n * w > len(b):
            raise ValueError('field header (count=%d, width=%d) does not fit the stream' % (n, w))
        out.append((n, w, b[pos:pos + n * w]))
        pos += n * w
    if pos != len(b):
        raise ValueError('%d trailing bytes' % (len(b) - pos))
    return out


def run(case):
    import asdf
    from e2_world import catalog as C
    from simcore import boot
    out = new_outcome()
    boot.register_asdf_extension()
    from abacusnbody.data import pipe_asdf
    knobs = case['knobs']
    fault = case['fault']
    with C.scratch() as root:
        paths, truth = [], {}
        if case.get('prior_call'):
            # history: the same paths held other contents earlier in this process and were piped once already
            # (a pipeline re-writing its scratch files); what is emitted must be what the files hold *now*
            prior = []
            for fi, f in enumerate(case['files']):
                data = {col['name']: _array(col, f['rows'][ci] + 1 + fi, f['seed'] + 977 + ci) for ci, col in enumerate(case['cols'])}
                p = os.path.join(root, f['name'])
                asdf.AsdfFile({'data': data, 'header': {'BoxSize': 1.0}}).write_to(p)
                prior.append(p)
            try:
                with C.environment(knobs):
                    pipe_asdf.unpack_to_pipe(prior, list(case['request']), pipe=Sink(), verbose=False)
            except Exception as e:
                violation(out, 'raises:' + type(e).__name__, 'unpack_to_pipe:prior-call', repr(e)[:300])
                return out
            bump(out['faults'], 'same-paths-piped-before-with-other-contents')
        # a field may be missing from every file (an unknown name) or from one file only (a requested, existing
        # column that one of the files lacks): both must be reported before any byte is written
        partial = (fault['kind'] == 'missing-field' and not fault.get('everywhere', True) and len(case['request']) > 0)
        victim = case['request'][min(fault['pos'], len(case['request']) - 1)] if partial else None
        victim_file = (fault.get('file', 0) % len(case['files'])) if partial else None
        for fi, f in enumerate(case['files']):
            data = {}
            for ci, col in enumerate(case['cols']):
                if partial and fi == victim_file and col['name'] == victim:
                    continue
                data[col['name']] = _array(col, f['rows'][ci], f['seed'] + ci)
            p = os.path.join(root, f['name'])
            kw = {}
            if knobs.get('compression') == 'blsc':
                kw = {'all_array_compression': 'blsc', 'compression_kwargs': {'compression_block_size': knobs['cbs']}}
            asdf.AsdfFile({'data': data, 'header': {'BoxSize': 1.0}}).write_to(p, **kw)
            paths.append(p)
            truth[p] = data
        if case.get('failed_call_before') and not fault['kind']:
            # history: an earlier call in this process failed (missing field, then missing file); the valid call that
            # follows must be unaffected
            for bad_args, bad_req in ((list(paths), list(case['request']) + ['no_such_field']),
                                      (list(paths) + [os.path.join(root, 'does-not-exist.asdf')], list(case['request']))):
                try:
                    with C.environment(knobs):
                        pipe_asdf.unpack_to_pipe(bad_args, bad_req, pipe=Sink(), verbose=False)
                except Exception:
                    pass
            bump(out['faults'], 'failed-call-before')
        request = list(case['request'])
        args = list(paths)
        if fault['kind'] == 'missing-file':
            args.insert(min(fault['pos'], len(args)), os.path.join(root, 'does-not-exist.asdf'))
            bump(out['faults'], 'missing-file-at-%s' % ('start' if fault['pos'] == 0 else 'end' if fault['pos'] >= len(paths) else 'middle'))
        if fault['kind'] == 'missing-field':
            if partial:
                bump(out['faults'], 'field-missing-from-one-file-only')
            else:
                request.insert(min(fault['pos'], len(request)), 'no_such_field')
            bump(out['faults'], 'missing-field-at-%s' % ('start' if fault['pos'] == 0 else 'end' if fault['pos'] >= len(case['request']) else 'middle'))
        sink = Sink()
        err = None
        try:
            with C.environment(knobs, out['faults']):
                pipe_asdf.unpack_to_pipe(args, request, pipe=sink, verbose=False)
        except Exception as e:
            err = e
        site = 'unpack_to_pipe'
        writes = [e for e in sink.events if e[0] == 'write']
        if fault['kind']:
            if err is None:
                violation(out, 'missing-input-not-reported', site, {'fault': fault})
            elif writes:
                violation(out, 'bytes-written-before-error', site, {'fault': fault, 'bytes': sum(len(w[1]) for w in writes),
                                                                    'error': repr(err)[:200]})
            out['events'].append(['fault', fault['kind'], type(err).__name__ if err else None, len(writes)])
        else:
            if err is not None:
                violation(out, 'raises:' + type(err).__name__, site, repr(err)[:300])
                return out
            stream = sink.written()
            try:
                fields = parse_stream(stream, len(request))
            except Exception as e:
                violation(out, 'bad-wire-format', site, repr(e)[:300])
                return out
            for name, (n, w, payload) in zip(request, fields):
                arrs = [truth[p][name] for p in paths]
                want_n = sum(int(a.size) for a in arrs)
                want_w = arrs[0].dtype.itemsize
                want_b = b''.join(np.ascontiguousarray(a).tobytes() for a in arrs)
                if n != want_n or w != want_w:
                    violation(out, 'wrong-header', site, {'field': name, 'count': n, 'width': w, 'expected_count': want_n,
                                                          'expected_width': want_w})
                    return out
                if payload != want_b:
                    violation(out, 'wrong-payload', site, {'field': name, 'bytes': len(payload)})
                    return out
            if not sink.closed:
                violation(out, 'pipe-not-closed', site, 'EOF was not signalled')
            out['events'].append(['ok', len(paths), request, len(stream)])
            if len(set(request)) < len(request):
                bump(out['probes'], 'field-requested-twice')
            if any(a.size == 0 for p in paths for a in truth[p].values()):
                bump(out['probes'], 'empty-column')
            if any(a.ndim > 1 for a in truth[paths[0]].values()):
                bump(out['probes'], 'multi-dimensional-column')
            if any(a.nbytes > (4 << 20) for p in paths for a in truth[p].values()):
                bump(out['probes'], 'column-larger-than-4MiB')
    out['steps'] = len(sink.events)
    if len(case['files']) >= 2 or len(case['request']) >= 2:
        out['nontrivial'] = [len(case['files']), len(case['request']), sorted({c['dtype'] for c in case['cols']}),
                             fault['kind'], fault.get('pos'), knobs['compression'], knobs['io_block']]
    return out


def shrink(case):
    c = copy.deepcopy(case)
    if case.get('prior_call'):
        yield dict(c, prior_call=False)
    if len(case['files']) > 1:
        for i in range(len(case['files'])):
            f2 = dict(case['fault'])
            yield dict(c, files=case['files'][:i] + case['files'][i + 1:], fault=f2)
    if len(case['request']) > 1:
        for i in range(len(case['request'])):
            yield dict(c, request=case['request'][:i] + case['request'][i + 1:])
    for i, f in enumerate(case['files']):
        if any(r > 1 for r in f['rows']):
            fs = copy.deepcopy(case['files'])
            fs[i]['rows'] = [min(r, 1) for r in f['rows']]
            yield dict(c, files=fs)
    k = case['knobs']
    for key, val in (('compression', None), ('io_block', None)):
        if k[key] != val:
            yield dict(c, knobs=dict(k, **{key: val}))
