"""C10 -- the galaxy catalogue is identical for every thread count.

Engine E1: ``gen_gal_cat`` / ``gen_gals`` (plain Python, as they are) drive the
simulated two-pass kernels ``gen_cent`` / ``gen_sats`` and ``fast_concatenate``;
``_searchsorted_parallel`` is simulated on its own.  Oracles: every column, the
row order and Ncent bitwise equal to the Nthread=1 run; no element written by
two simulated threads; identical output under both allocator poisons (an output
row that the fill pass never writes is poison).
"""
import numpy as np

from simcore.core import new_outcome, violation, bump
from . import hodcommon as HC
from . import hodrun as HR

PID = 'C10'
QUICK_RUNS = 3000
QUICK_SECONDS = 150
THOROUGH_SECONDS = 900
CASE_TIMEOUT = 600
SHRINK_SECONDS = 120
LEVEL = 'exploration'
RULE = ('case = (halo table 0..40 rows, particle table 0..80 rows, tracer subset, HOD parameters, RSD / light-cone origin, '
        'Nthread 1..16, schedule config). non-trivial = >= 2 hosts, Nthread >= 2 and at least one galaxy produced; '
        'distinct = distinct (H, P, tracers, Nthread, H mod Nthread == 0, policy, strategy, rsd, lightcone)')
COMPONENTS = {'real': ['hod/GRAND_HOD.py: gen_gal_cat, gen_gals (as is); gen_cent, gen_sats, fast_concatenate and '
                       'hod/abacus_hod.py:_searchsorted_parallel as cooperative generators; compiled kernels on real '
                       'threads at the thorough tier'],
              'stub': ['numba thread pool and scheduler; numba.typed.Dict (plain dict in the simulated variant)']}
ASSUMPTIONS = ['stored random numbers are inputs (nfw=False, no reseed): the NFW kernels draw from numba per-thread RNG '
               'state the simulator does not own and are outside the property']


def gen(rng, tier):
    from e1_threads.harness import gen_sched
    c = HC.gen_tables(rng, tier, max_h=200, max_p=400) if (tier == 'thorough' and rng.random() < 0.3) else HC.gen_tables(rng, tier)
    c['Nthread'] = rng.choice([1, 2, 3, 4, 5, 7, 8, 16, 16, rng.randrange(1, 17)])
    c['sched'] = gen_sched(rng)
    c['search'] = {'a': sorted(rng.sample(range(0, 400), rng.choice([0, 1, 5, 30]))),
                   'nb': rng.choice([0, 1, 7, 40])}
    c['search']['b'] = [rng.randrange(-5, 410) for _ in range(c['search']['nb'])]
    if rng.random() < 0.6:
        # what staging really passes: particle host ids in file order, i.e. runs of equal values
        c['search']['b'] = sorted(v for v in c['search']['b'] for _ in range(rng.randrange(1, 4)))
    c['compiled'] = (tier == 'thorough' and rng.random() < 0.05)
    return c


def sweep(tier):
    """Complete over (host-table size 0..HMAX, Nthread 1..16) with every host selected: the rounded
    per-thread block boundaries, counters and prefix offsets only misalign for particular pairs."""
    import random
    HMAX = 260 if tier == 'thorough' else 130
    rng = random.Random(10)
    lrg = {'logM_cut': 12.5, 'logM1': 13.5, 'sigma': 0.5, 'alpha': 1.0, 'kappa': 0.5, 'alpha_c': 0.2, 'alpha_s': 0.9,
           's': 0.0, 's_v': 0.0, 's_p': 0.0, 's_r': 0.0, 'Acent': 0.0, 'Asat': 0.0, 'Bcent': 0.0, 'Bsat': 0.0, 'ic': 1.0}
    for T in range(1, 17):
        for Hn in range(0, HMAX + 1):
            halos = [{'pos': [i * 0.5 - 40, 3.0, -7.0 + i * 0.1], 'vel': [10.0 + i, -5.0, 2.0], 'logm': 13.0 + (i % 7) * 0.1,
                      'id': 1000 + 3 * i, 'multi': 1.0, 'random': 0.0, 'vdev': [1.0, 2.0, 3.0], 'deltac': 0.0, 'fenv': 0.0,
                      'shear': 0.0, 'edge': None} for i in range(Hn)]
            parts = [{'hidx': i, 'pos': [i * 0.5 - 39.9, 3.1, -6.9], 'vel': [20.0, 1.0 + i, 0.0], 'weight': 1.0, 'random': 0.0,
                      'ranks': [0.0] * 5, 'edge': None} for i in range(Hn)]
            yield {'L': 500.0, 'halos': halos, 'parts': parts, 'tracers': {'LRG': dict(lrg)}, 'Mpart': 2.1e9, 'velz2kms': 100.0,
                   'rsd': True, 'origin': None, 'enable_ranks': False, 'want_AB': False, 'want_shear': False, 'z': 0.5,
                   'Nthread': T, 'sched': {'policy': 'static', 'strategy': 'serial', 'seed': Hn * 16 + T},
                   'search': {'a': [], 'b': [], 'nb': 0}, 'compiled': False, 'sweep': True}


def warmup():
    import abx_sim.hod.GRAND_HOD  # noqa: F401
    import abx_sim.hod.abacus_hod  # noqa: F401


def run(case):
    from abx_sim.hod import GRAND_HOD as G
    from abx_sim.hod import abacus_hod as AH
    from e1_threads import harness as H
    from e1_threads.sched import SIM
    out = new_outcome()
    c = HR.prepare(case)
    s = case['sched']
    T = case['Nthread']
    site = 'gen_gal_cat'
    ref, exc, summ1 = H.run(lambda: HR.flatten(HR.call(G, c, 1)), {'policy': 'static', 'strategy': 'serial'}, poison='A')
    if exc is not None:
        violation(out, 'raises:' + type(exc).__name__, site + '[Nthread=1]', repr(exc)[:300])
        return out
    results = {}
    for poison in ('A', 'B'):
        res, exc, summ = H.run(lambda: HR.flatten(HR.call(G, c, T)), s, poison=poison)
        if SIM.oob_events:
            ev = SIM.oob_events[0]
            violation(out, 'oob', (ev['region'] or site).split('#')[0], ev)
            return out
        if exc is not None:
            violation(out, 'raises:' + type(exc).__name__, site, repr(exc)[:300])
            return out
        conflicts, _ = SIM.conflicts(limit=1)
        for cf in conflicts:
            violation(out, 'conflict', cf['region'].split('#')[0], {'where': cf['where'], 'threads': cf['threads']})
            return out
        results[poison] = res
        if poison == 'A':
            out['steps'] = summ['steps'] + summ1['steps']
            sw = summ['switches']
            regions = summ['regions']
    d = HR.same_bits(results['A'], results['B'])
    if d:
        violation(out, 'depends-on-uninitialised-memory', site, d)
        return out
    d = HR.same_bits(ref, results['A'])
    if d:
        violation(out, 'depends-on-thread-count', site, {'Nthread': T, 'diff': d})
        return out
    ngal = sum(len(v['x']) for v in ref.values())
    out['events'].append(['cat', len(c['halos']), len(c['parts']), sorted(c['tracers']), T, ngal, regions, sw])
    bump(out['faults'], 'policy=' + s.get('policy', 'static'))
    bump(out['faults'], 'strategy=' + s.get('strategy', 'serial'))
    bump(out['faults'], 'context-switches', sw)
    bump(out['faults'], 'poisoned-allocations')
    Hn = len(c['halos'])
    if Hn == 0:
        bump(out['probes'], 'empty-host-table')
    if 0 < Hn < T:
        bump(out['probes'], 'more-threads-than-hosts')
    if Hn and Hn % T:
        bump(out['probes'], 'hosts-not-divisible-by-threads')
    # ---- parallel host lookup
    a = np.array(case['search']['a'], dtype=np.int64)
    b = np.array(case['search']['b'], dtype=np.int64)
    numba_threads = {'n': T}

    def lookup():
        SIM.set_num_threads(numba_threads['n'])
        return AH._searchsorted_parallel(a, b)
    r1, e1, _ = H.run(lookup, s, poison='A')
    r2, e2, _ = H.run(lookup, s, poison='B')
    if SIM.oob_events:
        violation(out, 'oob', 'abacus_hod._searchsorted_parallel', SIM.oob_events[0])
    elif e1 is not None or e2 is not None:
        violation(out, 'raises:' + type(e1 or e2).__name__, '_searchsorted_parallel', repr(e1 or e2)[:300])
    else:
        want = np.searchsorted(a, b)
        if not (np.array_equal(r1, want) and np.array_equal(r2, want)):
            violation(out, 'wrong-host-index', '_searchsorted_parallel', {'threads': T, 'len_b': len(b)})
        cfs, _ = SIM.conflicts(limit=1)
        for cf in cfs:
            violation(out, 'conflict', cf['region'].split('#')[0], {'where': cf['where']})
    if case.get('compiled'):
        _compiled(case, c, out)
    if Hn >= 2 and T >= 2 and ngal > 0:
        out['nontrivial'] = [Hn, len(c['parts']), sorted(c['tracers']), T, Hn % T == 0, s.get('policy'), s.get('strategy'),
                             c['rsd'], c['origin'] is not None]
    return out


def _compiled(case, c, out):
    """Real compiled kernels on real threads (minutes of compilation: thorough tier only)."""
    from abacusnbody.hod import GRAND_HOD as RG
    try:
        a = HR.flatten({t: dict(v) for t, v in HR.call(RG, c, 1).items()})
        b = HR.flatten({t: dict(v) for t, v in HR.call(RG, c, case['Nthread']).items()})
    except Exception as e:
        violation(out, 'raises:' + type(e).__name__, 'gen_gal_cat[compiled]', repr(e)[:300])
        return
    bump(out['probes'], 'compiled-crosscheck')
    d = HR.same_bits(a, b)
    if d:
        violation(out, 'depends-on-thread-count', 'gen_gal_cat[compiled]', {'Nthread': case['Nthread'], 'diff': d})


def shrink(case):
    c = dict(case)
    hs, ps = case['halos'], case['parts']
    for i in range(len(ps)):
        yield dict(c, parts=ps[:i] + ps[i + 1:])
    for i in range(len(hs)):
        keep = hs[:i] + hs[i + 1:]
        newp = []
        for p in ps:
            if p['hidx'] == i:
                continue
            q = dict(p)
            if q['hidx'] > i:
                q['hidx'] -= 1
            newp.append(q)
        yield dict(c, halos=keep, parts=newp)
    for t in list(case['tracers']):
        if len(case['tracers']) > 1:
            yield dict(c, tracers={k: v for k, v in case['tracers'].items() if k != t})
    if case['rsd']:
        yield dict(c, rsd=False)
    if case['origin'] is not None:
        yield dict(c, origin=None)
    if case['enable_ranks']:
        yield dict(c, enable_ranks=False)
    if case['Nthread'] > 2:
        yield dict(c, Nthread=2)
    if case['sched'].get('strategy') != 'serial':
        yield dict(c, sched=dict(case['sched'], strategy='serial'))
    if case['search']['nb']:
        yield dict(c, search={'a': [], 'b': [], 'nb': 0})
