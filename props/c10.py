"""C10 -- the galaxy catalogue is identical for every thread count.

Engine E1: ``gen_gal_cat`` / ``gen_gals`` (plain Python, as they are) drive the
simulated two-pass kernels ``gen_cent`` / ``gen_sats`` and ``fast_concatenate``;
``_searchsorted_parallel`` is simulated on its own.  Oracles: every column, the
row order and Ncent bitwise equal to the Nthread=1 run; no element written by
two simulated threads; identical output under both allocator poisons (an output
row that the fill pass never writes is poison).
"""
import numpy as np

from simcore.core import new_outcome, violation, bump
from . import hodcommon as HC
from . import hodrun as HR

PID = 'C10'
QUICK_RUNS = 3000
QUICK_SECONDS = 150
THOROUGH_SECONDS = 900
CASE_TIMEOUT = 600
SHRINK_SECONDS = 120
LEVEL = 'exploration'
RULE = ('case = (halo table 0..40 rows, particle table 0..80 rows, tracer subset, HOD parameters, RSD / light-cone origin, '
        'Nthread 1..16, schedule config). non-trivial = >= 2 hosts, Nthread >= 2 and at least one galaxy produced; '
        'distinct = distinct (H, P, tracers, Nthread, H mod Nthread == 0, policy, strategy, rsd, lightcone)')
COMPONENTS = {'real': ['hod/GRAND_HOD.py: gen_gal_cat, gen_gals (as is); gen_cent, gen_sats, fast_concatenate and '
                       'hod/abacus_hod.py:_searchsorted_parallel as cooperative generators; compiled kernels on real '
                       'threads at the thorough tier'],
              'stub': ['numba thread pool and scheduler; numba.typed.Dict (plain dict in the simulated variant)']}
ASSUMPTIONS = ['stored random numbers are inputs (nfw=False, no reseed): the NFW kernels draw from numba per-thread RNG '
               'state the simulator does not own and are outside the property']


def gen(rng, tier):
    from e1_threads.harness import gen_sched
    c = HC.gen_tables(rng, tier, max_h=200, max_p=400) if (tier == 'thorough' and rng.random() < 0.3) else HC.gen_tables(rng, tier)
    c['Nthread'] = rng.choice([1, 2, 3, 4, 5, 7, 8, 16, 16, rng.randrange(1, 17)])
    c['sched'] = gen_sched(rng)
    c['search'] = {'a': sorted(rng.sample(range(0, 400), rng.choice([0, 1, 5, 30]))),
                   'nb': rng.choice([0, 1, 7, 40])}
    c['search']['b'] = [rng.randrange(-5, 410) for _ in range(c['search']['nb'])]
    if rng.random() < 0.6:
        # what staging really passes: particle host ids in file order, i.e. runs of equal values
        c['search']['b'] = sorted(v for v in c['search']['b'] for _ in range(rng.randrange(1, 4)))
    c['compiled'] = (tier == 'thorough' and rng.random() < 0.05)
    c['failed_call_before'] = rng.random() < 0.2
    return c


def sweep(tier):
    """Complete over (host-table size 0..HMAX, Nthread 1..16) with every host selected: the rounded
    per-thread block boundaries, counters and prefix offsets only misalign for particular pairs."""
    import random
    HMAX = 260 if tier == 'thorough' else 130
    rng = random.Random(10)
    lrg = {'logM_cut': 12.5, 'logM1': 13.5, 'sigma': 0.5, 'alpha': 1.0, 'kappa': 0.5, 'alpha_c': 0.2, 'alpha_s': 0.9,
           's': 0.0, 's_v': 0.0, 's_p': 0.0, 's_r': 0.0, 'Acent': 0.0, 'Asat': 0.0, 'Bcent': 0.0, 'Bsat': 0.0, 'ic': 1.0}
    for T in range(1, 17):
        for Hn in range(0, HMAX + 1):
            halos = [{'pos': [i * 0.5 - 40, 3.0, -7.0 + i * 0.1], 'vel': [10.0 + i, -5.0, 2.0], 'logm': 13.0 + (i % 7) * 0.1,
                      'id': 1000 + 3 * i, 'multi': 1.0, 'random': 0.0, 'vdev': [1.0, 2.0, 3.0], 'deltac': 0.0, 'fenv': 0.0,
                      'shear': 0.0, 'edge': None} for i in range(Hn)]
            parts = [{'hidx': i, 'pos': [i * 0.5 - 39.9, 3.1, -6.9], 'vel': [20.0, 1.0 + i, 0.0], 'weight': 1.0, 'random': 0.0,
                      'ranks': [0.0] * 5, 'edge': None} for i in range(Hn)]
            yield {'L': 500.0, 'halos': halos, 'parts': parts, 'tracers': {'LRG': dict(lrg)}, 'Mpart': 2.1e9, 'velz2kms': 100.0,
                   'rsd': True, 'origin': None, 'enable_ranks': False, 'want_AB': False, 'want_shear': False, 'z': 0.5,
                   'Nthread': T, 'sched': {'policy': 'static', 'strategy': 'serial', 'seed': Hn * 16 + T},
                   'search': {'a': [], 'b': [], 'nb': 0}, 'compiled': False, 'sweep': True}
    for T in CS_THREADS:
        yield {'csweep': {'T': T, 'sizes': _csweep_sizes(T, tier)}}


CS_THREADS = (2, 3, 4, 8, 16)


def _csweep_sizes(T, tier):
    import random
    r = random.Random(100 + T)
    base = 4096 * T
    ns = [base - 1, base, base + 1, base + 37, 2 * base + 5, base + 63, base + 65]
    ns += [r.randrange(base, 3 * base) for _ in range(6 if tier == 'thorough' else 3)]
    return [(n, m) for n, m in zip(ns, ns[2:] + ns[:2])]


def _csweep(case, out):
    """Compiled kernels on real threads for table sizes the interpreted simulation cannot reach (thousands of rows per
    thread, where block-size dependent fast paths live): Nthread=T must reproduce Nthread=1 bit for bit."""
    from abacusnbody.hod import GRAND_HOD as RG
    T = case['csweep']['T']
    lrg = {'logM_cut': 12.8, 'logM1': 13.6, 'sigma': 0.5, 'alpha': 1.0, 'kappa': 0.5, 'alpha_c': 0.2, 'alpha_s': 0.9,
           's': 0.0, 's_v': 0.0, 's_p': 0.0, 's_r': 0.0, 'Acent': 0.0, 'Asat': 0.0, 'Bcent': 0.0, 'Bsat': 0.0, 'ic': 1.0}
    elg = dict(lrg, logM_cut=12.2, logM1=13.2, p_max=0.5, Q=100.0, gamma=4.0, A_s=1.0, Ccent=0.0, Csat=0.0)
    site = 'gen_gal_cat[compiled]'
    for k, (Hn, Pn) in enumerate(case['csweep']['sizes']):
        g = np.random.default_rng(1000 * T + k)
        L = 500.0
        logm = g.uniform(12.0, 14.6, Hn)
        halo = {'hpos': g.uniform(-L / 2, L / 2, (Hn, 3)), 'hvel': g.uniform(-900, 900, (Hn, 3)), 'hmass': 10 ** logm,
                'hid': 1000 + 3 * np.arange(Hn, dtype=np.int64), 'hmultis': g.choice([1.0, 1.0, 0.5, 2.0], Hn),
                'hrandoms': np.where(g.random(Hn) < 0.3, 0.0, g.random(Hn)), 'hveldev': g.normal(0, 150, (Hn, 3)),
                'hsigma3d': np.ones(Hn), 'hc': np.ones(Hn), 'hrvir': np.ones(Hn)}
        hidx = g.integers(0, Hn, Pn)
        if k % 2 == 0:
            hidx.sort()            # otherwise: particles not in host order
        part = {'ppos': g.uniform(-L / 2, L / 2, (Pn, 3)), 'pvel': g.uniform(-1500, 1500, (Pn, 3)), 'phvel': halo['hvel'][hidx],
                'phmass': halo['hmass'][hidx], 'phid': halo['hid'][hidx], 'pweights': g.choice([1.0, 0.5, 3.0], Pn),
                'prandoms': np.where(g.random(Pn) < 0.3, 0.0, g.random(Pn) ** 3), 'pinds': hidx}
        for name in ('pranks', 'pranksv', 'pranksp', 'pranksr', 'pranksc'):
            part[name] = np.ones(Pn)
        params = {'z': 0.5, 'h': 0.67, 'Lbox': L, 'Mpart': 2.1e9, 'velz2kms': 100.0, 'origin': None, 'chunk': -1, 'numslabs': 1}
        tracers = {'LRG': dict(lrg)} if k % 3 else {'LRG': dict(lrg), 'ELG': dict(elg)}
        res = {}
        for nt in (1, T):
            try:
                r = RG.gen_gal_cat({a: b.copy() for a, b in halo.items()}, {a: b.copy() for a, b in part.items()},
                                   {t: dict(v) for t, v in tracers.items()}, dict(params), Nthread=nt, enable_ranks=False,
                                   rsd=bool(k % 2), nfw=False, write_to_disk=False, verbose=False)
                res[nt] = HR.flatten({t: dict(v) for t, v in r.items()})
            except Exception as e:
                violation(out, 'raises:' + type(e).__name__, site, {'Nthread': nt, 'hosts': Hn, 'particles': Pn, 'error': repr(e)[:300]})
                return out
        d = HR.same_bits(res[1], res[T])
        if d:
            violation(out, 'depends-on-thread-count', site, {'Nthread': T, 'hosts': Hn, 'particles': Pn, 'diff': d})
            return out
        ngal = sum(len(v['x']) for v in res[1].values())
        out['events'].append(['csweep', T, Hn, Pn, ngal])
    bump(out['probes'], 'compiled-large-table-sweep')
    bump(out['faults'], 'real-threads=%d' % T, len(case['csweep']['sizes']))
    out['steps'] = 2 * len(case['csweep']['sizes'])
    out['nontrivial'] = ['csweep', T]
    return out


def warmup():
    import abx_sim.hod.GRAND_HOD  # noqa: F401
    import abx_sim.hod.abacus_hod  # noqa: F401


def run(case):
    from abx_sim.hod import GRAND_HOD as G
    from abx_sim.hod import abacus_hod as AH
    from e1_threads import harness as H
    from e1_threads.sched import SIM
    out = new_outcome()
    if 'csweep' in case:
        return _csweep(case, out)
    c = HR.prepare(case)
    s = case['sched']
    T = case['Nthread']
    site = 'gen_gal_cat'

    def fail_first(nt):
        # history: a call with the same thread count that dies midway (a tracer dictionary without the required
        # key s_v: KeyError after the central pass) comes first; whatever it left behind must not matter
        if case.get('failed_call_before') and c['tracers']:
            bad = {t: {k: v for k, v in c['tracers'][t].items() if k != 's_v'} for t in HR.tracer_order(c)}
            H.run(lambda: HR.call(G, c, nt, tracers=bad), {'policy': 'static', 'strategy': 'serial'})
    fail_first(1)
    ref, exc, summ1 = H.run(lambda: HR.flatten(HR.call(G, c, 1)), {'policy': 'static', 'strategy': 'serial'}, poison='A')
    if exc is not None:
        violation(out, 'raises:' + type(exc).__name__, site + '[Nthread=1]', repr(exc)[:300])
        return out
    results = {}
    for poison in ('A', 'B'):
        fail_first(T)
        res, exc, summ = H.run(lambda: HR.flatten(HR.call(G, c, T)), s, poison=poison)
        if SIM.oob_events:
            ev = SIM.oob_events[0]
            violation(out, 'oob', (ev['region'] or site).split('#')[0], ev)
            return out
        if exc is not None:
            violation(out, 'raises:' + type(exc).__name__, site, repr(exc)[:300])
            return out
        conflicts, _ = SIM.conflicts(limit=1)
        for cf in conflicts:
            violation(out, 'conflict', cf['region'].split('#')[0], {'where': cf['where'], 'threads': cf['threads']})
            return out
        results[poison] = res
        if poison == 'A':
            out['steps'] = summ['steps'] + summ1['steps']
            sw = summ['switches']
            regions = summ['regions']
    d = HR.same_bits(results['A'], results['B'])
    if d:
        violation(out, 'depends-on-uninitialised-memory', site, d)
        return out
    d = HR.same_bits(ref, results['A'])
    if d:
        violation(out, 'depends-on-thread-count', site, {'Nthread': T, 'diff': d})
        return out
    ngal = sum(len(v['x']) for v in ref.values())
    out['events'].append(['cat', len(c['halos']), len(c['parts']), sorted(c['tracers']), T, ngal, regions, sw])
    bump(out['faults'], 'policy=' + s.get('policy', 'static'))
    bump(out['faults'], 'strategy=' + s.get('strategy', 'serial'))
    bump(out['faults'], 'context-switches', sw)
    bump(out['faults'], 'poisoned-allocations')
    Hn = len(c['halos'])
    if Hn == 0:
        bump(out['probes'], 'empty-host-table')
    if 0 < Hn < T:
        bump(out['probes'], 'more-threads-than-hosts')
    if Hn and Hn % T:
        bump(out['probes'], 'hosts-not-divisible-by-threads')
    # ---- parallel host lookup
    a = np.array(case['search']['a'], dtype=np.int64)
    b = np.array(case['search']['b'], dtype=np.int64)
    numba_threads = {'n': T}

    def lookup():
        SIM.set_num_threads(numba_threads['n'])
        return AH._searchsorted_parallel(a, b)
    r1, e1, _ = H.run(lookup, s, poison='A')
    r2, e2, _ = H.run(lookup, s, poison='B')
    if SIM.oob_events:
        violation(out, 'oob', 'abacus_hod._searchsorted_parallel', SIM.oob_events[0])
    elif e1 is not None or e2 is not None:
        violation(out, 'raises:' + type(e1 or e2).__name__, '_searchsorted_parallel', repr(e1 or e2)[:300])
    else:
        want = np.searchsorted(a, b)
        if not (np.array_equal(r1, want) and np.array_equal(r2, want)):
            violation(out, 'wrong-host-index', '_searchsorted_parallel', {'threads': T, 'len_b': len(b)})
        cfs, _ = SIM.conflicts(limit=1)
        for cf in cfs:
            violation(out, 'conflict', cf['region'].split('#')[0], {'where': cf['where']})
    if case.get('compiled'):
        _compiled(case, c, out)
    if Hn >= 2 and T >= 2 and ngal > 0:
        out['nontrivial'] = [Hn, len(c['parts']), sorted(c['tracers']), T, Hn % T == 0, s.get('policy'), s.get('strategy'),
                             c['rsd'], c['origin'] is not None]
    return out


def _compiled(case, c, out):
    """Real compiled kernels on real threads (minutes of compilation: thorough tier only)."""
    from abacusnbody.hod import GRAND_HOD as RG
    try:
        a = HR.flatten({t: dict(v) for t, v in HR.call(RG, c, 1).items()})
        b = HR.flatten({t: dict(v) for t, v in HR.call(RG, c, case['Nthread']).items()})
    except Exception as e:
        violation(out, 'raises:' + type(e).__name__, 'gen_gal_cat[compiled]', repr(e)[:300])
        return
    bump(out['probes'], 'compiled-crosscheck')
    d = HR.same_bits(a, b)
    if d:
        violation(out, 'depends-on-thread-count', 'gen_gal_cat[compiled]', {'Nthread': case['Nthread'], 'diff': d})


def shrink(case):
    if 'csweep' in case:
        cs = case['csweep']
        if len(cs['sizes']) > 1:
            for i in range(len(cs['sizes'])):
                yield {'csweep': dict(cs, sizes=[cs['sizes'][i]])}
        return
    c = dict(case)
    hs, ps = case['halos'], case['parts']
    for i in range(len(ps)):
        yield dict(c, parts=ps[:i] + ps[i + 1:])
    for i in range(len(hs)):
        keep = hs[:i] + hs[i + 1:]
        newp = []
        for p in ps:
            if p['hidx'] == i:
                continue
            q = dict(p)
            if q['hidx'] > i:
                q['hidx'] -= 1
            newp.append(q)
        yield dict(c, halos=keep, parts=newp)
    for t in list(case['tracers']):
        if len(case['tracers']) > 1:
            yield dict(c, tracers={k: v for k, v in case['tracers'].items() if k != t})
    if case['rsd']:
        yield dict(c, rsd=False)
    if case['origin'] is not None:
        yield dict(c, origin=None)
    if case['enable_ranks']:
        yield dict(c, enable_ranks=False)
    if case['Nthread'] > 2:
        yield dict(c, Nthread=2)
    if case['sched'].get('strategy') != 'serial':
        yield dict(c, sched=dict(case['sched'], strategy='serial'))
    if case['search']['nb']:
        yield dict(c, search={'a': [], 'b': [], 'nb': 0})
