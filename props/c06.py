"""C06 -- mass assignment conserves weight and applies the TSC / CIC kernel.

``tsc_parallel`` is threaded for every nthread, so the kernel oracle is
evaluated on every simulated schedule (E1).  The same inputs also go through
the repository's compiled kernels with one thread (deterministic):
``tsc_parallel(nthread=1)`` and ``cic_serial`` (which has no seam of its own;
it is checked only through this compiled path -- stated, not hidden).

Oracle: an independent float64 implementation of the separable B-spline
deposit (e1_threads.massref).  Equality with it, cell by cell within a rounding
bound, implies conservation, non-negativity, additivity, accumulation into a
supplied grid and the roll property; total and minimum are checked explicitly
as well so that a violation names the clause that failed.
"""
import numpy as np

from simcore.core import new_outcome, violation, bump

PID = 'C06'
QUICK_RUNS = 600
QUICK_SECONDS = 150
THOROUGH_SECONDS = 900
CASE_TIMEOUT = 300
LEVEL = 'exploration'
RULE = ('case = (grid shape incl. anisotropic and one-cell-thick z, dtype, sub-cell offset, weights, particle list biased '
        'to cell centres / half-cell edges / 0 / largest float below BoxSize / BoxSize / out of range with wrap, nthread, '
        'npartition, supplied non-zero grid, schedule config); sweep: 120 configurations (8 grid shapes x dtype x offset '
        'class x kernel) each with one particle per combination of 7 (9 with wrap) boundary coordinates per axis. non-trivial = >= 1 particle on a boundary class and the '
        'configuration accepted; distinct = distinct (kind, shape, dtype, offset class, boundary classes present, '
        'weights, nthread, wrap, accumulate, policy, strategy)')
COMPONENTS = {'real': ['analysis/tsc.py kernels as cooperative generators (all schedules) and compiled with nthread=1',
                       'analysis/cic.py cic_serial compiled (no simulated seam: input generation only)'],
              'stub': ['numba thread pool and scheduler in the simulated runs']}
ASSUMPTIONS = ['rounding bound per cell: 6*eps(dtype)*(n+2)*(sum of |w| of the particles whose cloud touches the cell) '
               '+ 4*eps*|initial cell value|; calibrated at 10x the largest observed rounding error',
               'cell i is centred at i*h (the convention fixed by the repository test_single)',
               'offsets are sub-cell in magnitude, of either sign; negative offsets are generated only for grids whose axes '
               'all have at least 2 cells']


def _f(dtype):
    return np.float32 if dtype == 'f4' else np.float64


def gen(rng, tier):
    from e1_threads.harness import gen_sched
    kind = rng.choice(['tsc', 'tsc', 'tsc', 'cic'])
    dtype = rng.choice(['f4', 'f8'])
    ft = _f(dtype)
    n = rng.randrange(2, 13)
    shape = [n, n, n] if rng.random() < 0.5 else [rng.randrange(2, 13), rng.randrange(2, 13), rng.choice([1, 1, rng.randrange(2, 13)])]
    box = rng.choice([1.0, 1.0, 2000.0, 123.456, 32.0])
    wrap = rng.random() < 0.4 and kind == 'tsc'
    if kind == 'tsc':
        offset_cls = rng.choice(['0', 'half', 'rand', 'cell', 'neg-rand', 'neg-most'])
        if min(shape) < 2 and offset_cls.startswith('neg'):
            offset_cls = 'rand'      # negative offsets only on grids without a one-cell axis (see ASSUMPTIONS)
    else:
        offset_cls = rng.choice(['0', 'half'])
    h0 = box / max(shape)            # sub-cell with respect to every axis
    offset = {'0': 0.0, 'half': 0.5 * h0, 'rand': rng.random() * h0, 'cell': h0, 'neg-rand': -rng.random() * h0,
              'neg-most': -rng.uniform(0.55, 0.99) * h0}[offset_cls]
    if offset_cls in ('0', 'half', 'rand', 'cell') and kind == 'tsc' and rng.random() < 0.5:
        h0 = box / shape[0]
        offset = {'0': 0.0, 'half': 0.5 * h0, 'rand': rng.random() * h0, 'cell': h0}[offset_cls]
    top = float(np.nextafter(ft(box), ft(0)))
    N = rng.choice([0, 1, 2, 5, rng.randrange(0, 40)])
    pos, classes = [], set()
    for _ in range(N):
        p = []
        for ax in range(3):
            h = box / shape[ax]
            r = rng.random()
            if r < 0.45:
                v = rng.random() * box
            elif r < 0.6:
                v = rng.randrange(shape[ax]) * h
                classes.add('cell-centre')
            elif r < 0.8:
                v = (rng.randrange(shape[ax]) + 0.5) * h
                classes.add('half-cell-edge')
            elif r < 0.86 or (offset < 0 and r < 0.9):
                v = 0.0 if rng.random() < 0.5 else rng.random() * abs(offset)
                classes.add('zero')
            elif r < 0.93:
                v = top
                classes.add('below-box')
            else:
                v = box
                classes.add('at-box')
            if offset_cls in ('half', 'rand') and rng.random() < 0.3:
                v = v - offset   # lands on a centre/edge after the offset is applied
                if v < 0:
                    v += box
            if wrap and rng.random() < 0.3:
                v += rng.choice([-box, box])
                classes.add('out-of-range')
            if wrap and rng.random() < 0.05:
                v = -box * 2.0 ** rng.choice([-27, -30, -56, -60])     # wraps to exactly `box` in the position dtype
                classes.add('wraps-to-box')
            v = float(ft(v))
            if not wrap:
                v = min(max(v, 0.0), box)
            p.append(v)
        pos.append(p)
    weights = None if rng.random() < 0.4 else [float(ft(rng.choice([1.0, 0.0, 2.5, rng.random()]))) for _ in pos]
    nthread = rng.choice([1, 2, 3, 4, 8, 16])
    return {'kind': kind, 'shape': shape, 'box': box, 'dtype': dtype, 'gdtype': rng.choice(['f4', 'f4', 'f8']),
            'offset': offset, 'offset_cls': offset_cls, 'wrap': wrap, 'pos': pos, 'weights': weights,
            'classes': sorted(classes), 'nthread': nthread,
            'npartition': None if rng.random() < 0.7 else rng.randrange(1, max(2, shape[0] // 3 + 1)),
            'coord': rng.choice([0, 0, 1, 2]), 'sort': rng.random() < 0.25, 'accumulate': rng.random() < 0.3, 'gseed': rng.randrange(1 << 20),
            'sched': gen_sched(rng), 'poison': rng.choice(['A', 'B']), 'repeat': rng.random() < 0.3,
            'layout': rng.choice(['C', 'C', 'C', 'cols-view', 'fortran', 'strided', 'readonly']),
            'grid_layout': rng.choice(['C', 'C', 'padded-view', 'fortran'])}


def sweep(tier):
    """One particle for every combination of boundary coordinates per axis (0, largest float below BoxSize, BoxSize, a
    cell centre, a half-cell edge, the float below that edge, the position that lands on the edge after the offset; with
    wrap also one value on either side of the box), for a fixed family of grid shapes x offset classes x dtypes: the
    boundary classes are enumerated here, the seeded cases sample around them."""
    import itertools
    import random
    rng = random.Random(6)
    shapes = [[4, 4, 4], [5, 3, 1], [2, 7, 3], [12, 2, 2], [3, 3, 3], [2, 2, 2], [6, 5, 4], [9, 4, 1]]
    k = 0
    for kind in ('tsc', 'cic'):
        for shape in shapes:
            for dtype in ('f4', 'f8'):
                ft = _f(dtype)
                for oc in (['0', 'half', 'rand', 'cell', 'neg-rand', 'neg-most'] if kind == 'tsc' else ['0', 'half']):
                    if min(shape) < 2 and oc.startswith('neg'):
                        continue
                    k += 1
                    box = [1.0, 2000.0, 123.456, 32.0][k % 4]
                    h0 = box / (max(shape) if (k % 2 or oc.startswith('neg') or kind == 'cic') else shape[0])
                    offset = {'0': 0.0, 'half': 0.5 * h0, 'rand': rng.random() * h0, 'cell': h0, 'neg-rand': -rng.random() * h0,
                              'neg-most': -rng.uniform(0.55, 0.99) * h0}[oc]
                    wrap = kind == 'tsc' and k % 3 == 0
                    top = float(np.nextafter(ft(box), ft(0)))
                    per_axis = []
                    for ax in range(3):
                        h = box / shape[ax]
                        c = rng.randrange(shape[ax])
                        edge = (c + 0.5) * h
                        vals = [0.0, top, box, c * h, edge, float(np.nextafter(ft(edge), ft(0))), (edge - offset) % box]
                        if wrap:
                            vals += [-0.25 * h, box + 0.3 * h]
                        vals = [float(ft(v)) for v in vals]
                        if not wrap:
                            vals = [min(max(v, 0.0), box) for v in vals]
                        per_axis.append(vals)
                    pos = [list(p) for p in itertools.product(*per_axis)]
                    weights = None if k % 2 else [float(ft(rng.choice([1.0, 0.0, 2.5, rng.random()]))) for _ in pos]
                    yield {'kind': kind, 'shape': shape, 'box': box, 'dtype': dtype, 'gdtype': ['f4', 'f8'][k % 2] if dtype == 'f8' else 'f4',
                           'offset': offset, 'offset_cls': oc, 'wrap': wrap, 'pos': pos, 'weights': weights,
                           'classes': ['boundary-product'], 'nthread': [1, 2, 3, 4, 8, 16][k % 6], 'npartition': None,
                           'coord': k % 3, 'sort': k % 5 == 0, 'accumulate': k % 4 == 1, 'gseed': k,
                           'sched': {'policy': ['static', 'cyclic', 'dynamic'][k % 3], 'strategy': 'random', 'p_switch': 0.2,
                                     'pct_depth': 2, 'seed': k}, 'poison': 'AB'[k % 2], 'repeat': k % 7 == 3}


def _touch(pos, shape, box, weights, offset, reach):
    """sum of |w| of the particles whose cloud can touch each cell (rounding bound)."""
    out = np.zeros(shape)
    if len(pos) == 0:
        return out
    w = np.ones(len(pos)) if weights is None else np.abs(np.asarray(weights, dtype=np.float64))
    idx = []
    for ax in range(3):
        p = (np.asarray(pos, dtype=np.float64)[:, ax] + offset) * shape[ax] / box
        base = np.floor(p).astype(np.int64)
        idx.append(np.mod(base[:, None] + np.arange(-reach, reach + 2)[None, :], shape[ax]))
    k = idx[0].shape[1]
    for a in range(k):
        for b in range(k):
            for c in range(k):
                np.add.at(out, (idx[0][:, a], idx[1][:, b], idx[2][:, c]), w)
    return out


def _check(out, site, case, got, ref, g0, tolgrid, sumw):
    got = np.asarray(got, dtype=np.float64)
    if got.shape != ref.shape:
        violation(out, 'bad-shape', site, '%s vs %s' % (got.shape, ref.shape))
        return
    d = np.abs(got - ref)
    bad = ~(d <= tolgrid)
    if bad.any():
        i = tuple(int(x) for x in np.argwhere(bad)[0])
        tot, want = float((got - g0).sum()), float((ref - g0).sum())
        kind = 'wrong-deposit'
        if abs(tot - want) > 64 * float(np.finfo(_f(case['gdtype'])).eps) * max(1.0, sumw) * max(case['shape']):
            kind = 'weight-not-conserved'
        violation(out, kind, site, {'cell': list(i), 'got': float(got[i]), 'expected': float(ref[i]),
                                    'tol': float(tolgrid[i]), 'total': tot, 'expected_total': want,
                                    'n_bad_cells': int(bad.sum())})
        return
    if case['weights'] is None or min(case['weights'] or [0]) >= 0:
        m = (got - g0 + tolgrid).min() if got.size else 0.0
        if m < 0:
            violation(out, 'negative-deposit', site, {'min': float(m)})


def run(case):
    from e1_threads import harness as H
    from e1_threads import massref
    from e1_threads.sched import SIM
    out = new_outcome()
    ft, gt = _f(case['dtype']), _f(case['gdtype'])
    shape = tuple(case['shape'])
    box = case['box']
    pos = np.array(case['pos'], dtype=ft).reshape(-1, 3)
    weights = None if case['weights'] is None else np.array(case['weights'], dtype=ft)
    sumw = float(len(pos) if weights is None else np.abs(weights).sum())
    offset = float(ft(case['offset']))
    if case['accumulate']:
        g0 = np.random.default_rng(case['gseed']).random(shape).astype(gt) * 3 + 1
    else:
        g0 = np.zeros(shape, dtype=gt)
    # reference (float64); positions are taken after the documented single periodic wrap
    pref = pos.astype(np.float64)
    if case['wrap']:
        pw = pos.copy()                      # the wrap is performed in the position dtype
        pw[pw >= ft(box)] -= ft(box)
        pw[pw < 0] += ft(box)
        pref = pw.astype(np.float64)
    kind = case['kind']
    ref = massref.deposit(pref, shape, box, weights, offset, kind=kind, grid=g0.astype(np.float64))
    eps = float(np.finfo(np.float32 if 'f4' in (case['dtype'], case['gdtype']) else np.float64).eps)
    tolgrid = 6 * eps * (max(shape) + 2) * _touch(pref, shape, box, weights, offset, 1) + 4 * eps * np.abs(g0) + 1e-300
    for c in case['classes']:
        bump(out['probes'], 'pos:' + c)
    bump(out['probes'], 'offset:' + case['offset_cls'])
    if shape[2] == 1:
        bump(out['probes'], 'one-cell-thick-z')
    accepted = True
    if kind == 'tsc':
        from abx_sim.analysis import tsc
        s = case['sched']

        repeat = bool(case.get('repeat'))
        pexp = pos.copy()
        for _ in range((2 if repeat else 1) if case['wrap'] else 0):
            pexp[pexp >= ft(box)] -= ft(box)      # the documented wrap is a single period per call
            pexp[pexp < 0] += ft(box)
        modified = []
        notsame = []

        def call(mod, nthread, npart):
            lay = case.get('layout', 'C')
            glay = case.get('grid_layout', 'C')
            if glay == 'padded-view':
                # the real-space view of a padded in-place-FFT buffer
                buf = np.full(shape[:2] + (shape[2] + 2,), -3, dtype=gt)
                grid = buf[:, :, :shape[2]]
                grid[...] = g0
            elif glay == 'fortran':
                grid = np.array(g0, order='F', copy=True)
            else:
                grid = g0.copy()
            supplied = grid
            p = H.with_layout(pos, lay, writable_needed=case['wrap'])
            w = H.with_layout(weights, lay)
            r = mod.tsc_parallel(p, grid, box, weights=w, nthread=nthread, wrap=case['wrap'], npartition=npart,
                                 coord=case['coord'], sort=case.get('sort', False), offset=offset)
            if repeat:
                # the caller's arrays again, accumulating into the grid of the first call (what interlacing and
                # multi-tracer painting do): apart from the documented in-place wrap they must be as they were
                r = mod.tsc_parallel(p, r, box, weights=w, nthread=nthread, wrap=case['wrap'], npartition=npart,
                                     coord=case['coord'], sort=case.get('sort', False), offset=offset)
            # "accumulates into a supplied grid": the caller's own array holds the result, whatever is returned
            if np.asarray(supplied).tobytes() != np.asarray(r).tobytes():
                notsame.append(float(np.abs(np.asarray(supplied, dtype=np.float64) - np.asarray(r, dtype=np.float64)).max()))
            if not case.get('sort', False):
                # (the wrap itself may round differently in compiled code, which subtracts a float64 box: a few ulp)
                dp = np.abs(np.asarray(p, dtype=np.float64) - pexp.astype(np.float64))
                if case['wrap']:
                    # ... and a position within rounding of a box face may legitimately end on either side of it
                    dp = np.minimum(dp, np.abs(dp - box))
                if (dp.size and dp.max() > 8 * float(np.finfo(ft).eps) * box) or (w is not None and np.asarray(w).tobytes() != weights.tobytes()):
                    modified.append(True)
            return r
        if repeat:
            ref = ref + (ref - g0.astype(np.float64))
            tolgrid = 2 * tolgrid
            sumw = 2 * sumw
            bump(out['probes'], 'same-arrays-painted-twice')
        res, exc, summ = H.run(lambda: call(tsc, case['nthread'], case['npartition']), s, poison=case['poison'])
        out['steps'] = summ['steps']
        bump(out['faults'], 'policy=' + s.get('policy', 'static'))
        bump(out['faults'], 'strategy=' + s.get('strategy', 'serial'))
        bump(out['faults'], 'context-switches', summ['switches'])
        if isinstance(exc, ValueError) and 'npartition' in str(exc) and case['npartition']:
            bump(out['probes'], 'config-rejected')
            accepted = False
        elif SIM.oob_events:
            ev = SIM.oob_events[0]
            violation(out, 'oob', (ev['region'] or 'tsc._tsc_scatter').split('#')[0], ev)
        elif exc is not None:
            violation(out, 'raises:' + type(exc).__name__, 'tsc_parallel[sim]', repr(exc)[:300])
        else:
            _check(out, 'tsc_parallel[sim]', case, res, ref, g0.astype(np.float64), tolgrid, sumw)
            if notsame and not out['violations']:
                violation(out, 'supplied-grid-not-updated', 'tsc_parallel[sim]',
                          {'grid_layout': case.get('grid_layout', 'C'), 'max_diff_to_returned': notsame[0]})
            if modified and not out['violations']:
                violation(out, 'caller-arrays-modified', 'tsc_parallel[sim]', 'positions / weights differ from what was passed (beyond the documented wrap)')
            out['events'].append(['sim', list(shape), round(float(np.asarray(res, dtype=np.float64).sum()), 4), summ['regions']])
        # compiled, single thread
        from abacusnbody.analysis import tsc as rtsc
        try:
            del modified[:]
            del notsame[:]
            got = call(rtsc, 1, None)
            _check(out, 'tsc_parallel[compiled,nthread=1]', case, got, ref, g0.astype(np.float64), tolgrid, sumw)
            if notsame and not out['violations']:
                violation(out, 'supplied-grid-not-updated', 'tsc_parallel[compiled,nthread=1]',
                          {'grid_layout': case.get('grid_layout', 'C'), 'max_diff_to_returned': notsame[0]})
            if modified and not out['violations']:
                violation(out, 'caller-arrays-modified', 'tsc_parallel[compiled,nthread=1]', 'positions / weights differ from what was passed (beyond the documented wrap)')
            if res is not None and exc is None:
                ok, dmax = H.close(res, got, atol=float(tolgrid.max()) * 2)
                if not ok and not out['violations']:
                    out['harness'] = 'HARNESS-MISMATCH sim vs compiled tsc differ by %g' % dmax
        except Exception as e:
            violation(out, 'raises:' + type(e).__name__, 'tsc_parallel[compiled,nthread=1]', repr(e)[:300])
    else:
        from abacusnbody.analysis import cic
        grid = g0.copy()
        p = pos if offset == 0.0 else (pos + ft(offset))
        try:
            cic.cic_serial(p, grid, box, weights=weights)
            ref = massref.deposit(p.astype(np.float64), shape, box, weights, 0.0, kind='cic', grid=g0.astype(np.float64))
            tolgrid = 6 * eps * (max(shape) + 2) * _touch(p.astype(np.float64), shape, box, weights, 0.0, 1) + 4 * eps * np.abs(g0) + 1e-300
            _check(out, 'cic_serial[compiled]', case, grid, ref, g0.astype(np.float64), tolgrid, sumw)
            out['events'].append(['cic', list(shape), round(float(grid.astype(np.float64).sum()), 4)])
        except Exception as e:
            violation(out, 'raises:' + type(e).__name__, 'cic_serial[compiled]', repr(e)[:300])
    if accepted and case['classes']:
        out['nontrivial'] = [kind, list(shape), case['dtype'], case['gdtype'], case['offset_cls'], case['classes'],
                             weights is not None, case['nthread'], case['wrap'], case['accumulate'],
                             case['sched'].get('policy'), case['sched'].get('strategy')]
    return out


def shrink(case):
    c = dict(case)
    n = len(case['pos'])
    for k in (n // 2, 1):
        if k >= 1 and n > 1:
            for start in range(0, n, k):
                keep = case['pos'][:start] + case['pos'][start + k:]
                w = None if case['weights'] is None else case['weights'][:start] + case['weights'][start + k:]
                yield dict(c, pos=keep, weights=w)
    if case['weights'] is not None:
        yield dict(c, weights=None)
    if case['accumulate']:
        yield dict(c, accumulate=False)
    if case.get('repeat'):
        yield dict(c, repeat=False)
    if case.get('layout', 'C') != 'C':
        yield dict(c, layout='C')
    if case.get('grid_layout', 'C') != 'C':
        yield dict(c, grid_layout='C')
    if case['wrap']:
        yield dict(c, wrap=False)
    if case['nthread'] != 1:
        yield dict(c, nthread=1)
    if case['npartition'] is not None:
        yield dict(c, npartition=None)
    if case['offset'] != 0.0:
        yield dict(c, offset=0.0, offset_cls='0')
    if case['dtype'] != 'f8':
        yield dict(c, dtype='f8', gdtype='f8')
    if case['sched'].get('strategy') != 'serial':
        yield dict(c, sched=dict(case['sched'], strategy='serial'))
