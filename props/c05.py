"""C05 -- halo statistics are unpacked into consistent physical units.

Sim: thin (said in DESIGN.md).  The property is arithmetic on stored values;
what the harness adds is that the stored values, BoxSize and VelZSpace_to_kms
are *state on simulated storage* drawn independently per world (every published
box has one fixed pair, which is why golden files cannot see a wrong constant),
plus the poisoned allocator for the per-file temporary columns.
"""
import copy

import numpy as np

from simcore.core import new_outcome, violation, bump

PID = 'C05'
QUICK_RUNS = 200
QUICK_SECONDS = 150
THOROUGH_SECONDS = 900
CASE_TIMEOUT = 300
SHRINK_SECONDS = 90
LEVEL = 'exploration'
RULE = ('case = (world with independent BoxSize / VelZSpace_to_kms, int16 ratios incl. +-32000, +-32767, 0; load options: '
        'fields all or a subset, cleaned, convert_units on and off (both per case), knobs). non-trivial = >= 1 halo row; '
        'distinct = distinct (BoxSize, VelZSpace_to_kms, cleaned, fields kind, rows bucket, io_block, compression)')
COMPONENTS = {'real': ['data/compaso_halo_catalog.py: _setup_halo_field_loaders, _read_halo_info, _load_halo_field'],
              'stub': ['Abacus simulation output (stub writer)', 'blosc codec']}
ASSUMPTIONS = ['float32 tolerances: 4e-7 relative for one multiplication, 2e-6 for ratio columns, sigmavMid within '
               '2e-5 of sigmav3d (cancellation in the square root)',
               'eigenvector columns are decoded, not scaled: they are outside this oracle (C18 is not claimed)']

LENGTH = ['x', 'r100']
VELOCITY = ['v', 'sigmav3d', 'meanSpeed', 'sigmav3d_r50', 'meanSpeed_r50', 'vcirc_max']


def all_modelled_columns():
    from e2_world import world as W
    cols = ['id', 'ntaggedA', 'ntaggedB', 'N', 'L2_N', 'L0_N', 'SO_central_particle', 'SO_central_density', 'SO_radius',
            'SO_L2max_central_particle', 'SO_L2max_central_density', 'SO_L2max_radius']
    for com in W.COMS:
        cols += [n + com for n in LENGTH + VELOCITY + list(W.RNAMES)]
        cols += ['sigmav%s%s' % (k, com) for k in ('Min', 'Mid', 'Maj', 'rad', 'tan')]
        cols += ['sigmar' + com, 'sigman' + com]
    return cols


LC_COLS = ['N', 'N_interp', 'index_halo', 'origin', 'pos_avg', 'pos_interp', 'vel_avg', 'vel_interp', 'redshift_interp']


def gen(rng, tier):
    from e2_world import world as W
    from e2_world import catalog as C
    lc = rng.random() < 0.15
    world = W.gen_world(rng, max_slabs=2, max_halos=5, max_parts=1, lc=lc)
    cols = all_modelled_columns()
    if lc:
        cols = [c for c in cols if 'L2' in c] + LC_COLS
    r = rng.random()
    if r < 0.4:
        fields = 'all'
    elif r < 0.65:
        fields = rng.sample(cols, rng.randrange(1, 9))
    else:
        # ratio columns together with the column they are relative to, in a seeded order: a loader that
        # touches the shared raw reference column shows up only for particular request orders
        fields = []
        for _ in range(rng.randrange(1, 4)):
            com = rng.choice(['_com', '_L2com'])
            kind = rng.choice(['r', 'sigmav'])
            if kind == 'r':
                ratio = rng.choice(['r10', 'r25', 'r33', 'r50', 'r67', 'r75', 'r90', 'r95', 'r98', 'rvcirc_max', 'sigmar']) + com
                ref = 'r100' + com
            else:
                ratio = 'sigmav' + rng.choice(['Min', 'Mid', 'Maj', 'rad', 'tan']) + com
                ref = 'sigmav3d' + com
            pair = [ratio, ref] if rng.random() < 0.5 else [ref, ratio]
            for f in pair:
                if f in cols and f not in fields:
                    fields.insert(rng.randrange(len(fields) + 1), f)
        if rng.random() < 0.5:
            extra = rng.choice(cols)
            if extra not in fields:
                fields.insert(rng.randrange(len(fields) + 1), extra)
        if not fields:
            fields = rng.sample(cols, rng.randrange(1, 5))     # an empty request is outside the property
    return {'world': world, 'knobs': C.gen_knobs(rng), 'cleaned': bool(world['cleaned'] and rng.random() < 0.5),
            'fields': fields}


def _tol(kind, exp, world, name, convert):
    V = world['header']['VelZSpace_to_kms'] if convert else 1.0
    if kind == 'exact':
        return np.zeros_like(exp)
    if kind == 'float1':
        return 4e-7 * np.abs(exp) + 1e-30
    if kind == 'float3':
        return 2e-6 * np.abs(exp) + 1e-30
    if kind.startswith('mid:'):
        return None
    return None


def run(case):
    from e2_world import world as W
    from e2_world import catalog as C
    out = new_outcome()
    world, knobs = case['world'], case['knobs']
    inds = sorted(s['index'] for s in world['slabs'])
    hs = [h for s in W._slabs(world, inds) for h in s['halos']]
    with C.scratch() as root:
        gd, written = W.write_world(world, root, knobs)
        C.prelude(world, knobs, root, out['faults'])
        C.failed_loads_before(gd, knobs, out['faults'])
        tabs = {}
        for convert in (True, False):
            C.failed_loads_before(gd, knobs)          # (when the knob is set) right before *each* load: conversion on, then off
            try:
                with C.environment(knobs, out['faults'] if convert else None):
                    cat = C.load(gd, cleaned=case['cleaned'] or bool(world.get('lc')), subsamples=False,
                                 fields=copy.deepcopy(case['fields']), convert_units=convert)
            except Exception as e:
                violation(out, 'raises:' + type(e).__name__, 'CompaSOHaloCatalog', repr(e)[:300])
                return out
            tabs[convert] = cat.halos
    box, V = world['header']['BoxSize'], world['header']['VelZSpace_to_kms']
    checked = 0
    for convert in (True, False):
        t = tabs[convert]
        if len(t) != len(hs):
            violation(out, 'row-count', 'CompaSOHaloCatalog', '%d rows, %d halos on storage' % (len(t), len(hs)))
            return out
        for name in t.colnames:
            exp, kind = W.expected_column(world, inds, name, convert_units=convert, cleaned=case['cleaned'])
            if exp is None or kind in ('unmodelled', 'empty'):
                continue
            if kind == 'exact-int':
                # 64-bit integer columns: compared as integers (a detour through float64 loses ids beyond 2**53)
                raw = np.asarray(t[name])
                gl = [int(x) for x in raw.ravel()]
                if raw.dtype.kind not in 'iu' or gl != [int(x) for x in exp.ravel()]:
                    i = next((k for k, (a, b) in enumerate(zip(gl, exp.ravel())) if a != int(b)), 0)
                    violation(out, 'value-changed', 'halos[%s]' % _family(name),
                              {'column': name, 'row': i, 'got': str(gl[i]) if gl else None, 'expected': str(int(exp.ravel()[i])) if len(exp) else None,
                               'dtype': str(raw.dtype), 'convert_units': convert})
                    return out
                checked += 1
                continue
            got = np.asarray(t[name], dtype=np.float64)
            if got.shape != exp.shape:
                violation(out, 'bad-shape', 'halos[%s]' % _family(name), '%s vs %s' % (got.shape, exp.shape))
                return out
            if kind.startswith('mid:'):
                s3 = np.array([h['raw']['sigmav3d' + kind[4:]] for h in hs], dtype=np.float64) * (V if convert else 1.0)
                tol = 2e-5 * s3 + 1e-30
            else:
                tol = _tol(kind, exp, world, name, convert)
            bad = ~(np.abs(got - exp) <= (tol if tol.ndim == got.ndim else tol.reshape(-1, *([1] * (got.ndim - 1)))))
            if bad.any():
                i = tuple(int(x) for x in np.argwhere(bad)[0])
                g, e = float(got[i]), float(exp[i])
                ratio = g / e if e else float('nan')
                violation(out, 'wrong-units' if kind != 'exact' else 'value-changed', 'halos[%s]' % _family(name),
                          {'column': name, 'row': i[0], 'got': g, 'expected': e, 'got/expected': ratio,
                           'BoxSize': box, 'VelZSpace_to_kms': V, 'convert_units': convert})
                return out
            checked += 1
    # relation between the two loads and between the dispersion columns
    ton, toff = tabs[True], tabs[False]
    for com in W.COMS:
        names = ['sigmavMin' + com, 'sigmavMid' + com, 'sigmavMaj' + com, 'sigmav3d' + com]
        if all(n in ton.colnames for n in names) and len(ton):
            a, b, c, s3 = [np.asarray(ton[n], dtype=np.float64) for n in names]
            if not np.allclose(a * a + b * b + c * c, s3 * s3, rtol=2e-4, atol=0):
                violation(out, 'dispersions-do-not-add-up', 'halos[sigmavM*]',
                          {'com': com, 'sum_of_squares': float((a * a + b * b + c * c)[0]), 'sigmav3d^2': float((s3 * s3)[0])})
                return out
            bump(out['probes'], 'dispersion-sum-rule')
    for x in (32000, -32000, 32767, -32767, 0):
        if any(v == x for h in hs for k, v in h['raw'].items() if k.endswith('_i16') and not isinstance(v, list)):
            bump(out['probes'], 'int16=%d' % x)
    out['events'].append(['units', len(hs), checked, case['cleaned']])
    if world.get('lc'):
        bump(out['probes'], 'light-cone-layout')
    out['steps'] = len(written)
    if hs:
        out['nontrivial'] = [box, V, case['cleaned'], 'all' if case['fields'] == 'all' else len(case['fields']),
                             min(len(hs), 9) // 3, knobs['io_block'], knobs['compression']]
    return out


def _family(name):
    import re
    m = re.fullmatch(r'(.*?)(_(?:L2)?com)', name)
    stem = m[1] if m else name
    stem = re.sub(r'^r\d{1,2}$', 'rNN', stem)
    return stem


def shrink(case):
    from .c01 import shrink as s01
    base = dict(case, path={'kind': 'zdir', 'order': [s['index'] for s in case['world']['slabs']]}, unpack_bits=False,
                passthrough=False, AB=[], subsamples=False)
    for cand in s01(base):
        c = {k: cand[k] for k in ('world', 'knobs', 'cleaned', 'fields')}
        if 'seed' in case:
            c['seed'] = case['seed']
        yield c
    if isinstance(case['fields'], list) and len(case['fields']) > 1:
        for i in range(len(case['fields'])):
            yield dict(case, fields=case['fields'][:i] + case['fields'][i + 1:])
    if case['fields'] == 'all':
        for n in ('sigmavMin_com', 'sigmavMid_com', 'sigmavrad_L2com'):
            yield dict(case, fields=[n])
