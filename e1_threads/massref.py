"""Independent float64 reference for TSC / CIC mass assignment.

Written from the definition of the B-spline kernels, not from the repository:
cell ``i`` of an axis with ``n`` cells is centred at ``i*h`` (h = box/n, the
convention fixed by the repository's own test_single), the domain is periodic,
a particle at grid coordinate p deposits W(i - p) into cell i mod n with

    TSC:  W(s) = 3/4 - s^2            |s| <= 1/2
               = (3/2 - |s|)^2 / 2    1/2 <= |s| <= 3/2
    CIC:  W(s) = 1 - |s|              |s| <= 1
"""
import numpy as np


def _w_tsc(s):
    s = np.abs(s)
    return np.where(s <= 0.5, 0.75 - s * s, np.where(s <= 1.5, 0.5 * (1.5 - s) ** 2, 0.0))


def _w_cic(s):
    s = np.abs(s)
    return np.where(s <= 1.0, 1.0 - s, 0.0)


def deposit(pos, shape, box, weights=None, offset=0.0, kind='tsc', grid=None):
    pos = np.asarray(pos, dtype=np.float64).reshape(-1, 3)
    shape = tuple(int(x) for x in shape)
    out = np.zeros(shape, dtype=np.float64) if grid is None else np.array(grid, dtype=np.float64)
    n = len(pos)
    if n == 0:
        return out
    w = np.ones(n) if weights is None else np.asarray(weights, dtype=np.float64)
    wf = _w_tsc if kind == 'tsc' else _w_cic
    reach = 2 if kind == 'tsc' else 1
    per_axis = []
    for ax in range(3):
        p = (pos[:, ax] + offset) * shape[ax] / box
        base = np.floor(p).astype(np.int64)
        cells = base[:, None] + np.arange(-reach + 1, reach + 1)[None, :]
        ws = wf(cells - p[:, None])
        per_axis.append((np.mod(cells, shape[ax]), ws))
    (cx, wx), (cy, wy), (cz, wz) = per_axis
    k = cx.shape[1]
    for a in range(k):
        for b in range(k):
            for c in range(k):
                np.add.at(out, (cx[:, a], cy[:, b], cz[:, c]), wx[:, a] * wy[:, b] * wz[:, c] * w)
    return out
