"""Brute-force reference for (k, mu) and (k_perp, k_par) mode binning.

Enumerates all n^3 modes of the *full* mesh with integer frequencies
(numpy.fft.fftfreq convention), exact integer |k|^2, and float64 mu^2.  The value
of a mode with negative k_z is that of its Hermitian conjugate in the stored
half mesh.  Each mode is counted once.

Membership: bin b of an increasing edge array e holds x with e[b] <= x < e[b+1]
up to edge ties -- a mode whose squared coordinate is within ``tie`` (relative)
of an edge^2 may legitimately fall on either side (the code under test compares
float32 squares), so per bin a [lo, hi] interval of admissible counts is
returned, and means are only compared on bins without ambiguous modes.
"""
import numpy as np

TIE = 8 * float(np.finfo(np.float32).eps)


def _freqs(n):
    f = np.arange(n)
    return np.where(f < (n + 1) // 2, f, f - n) if n % 2 else np.where(f < n // 2, f, f - n)


def full_modes(n, weights, fourier=True):
    """Returns integer arrays (fi, fj, fk) and the value per full-mesh mode."""
    f = _freqs(n)
    fi, fj, fk = np.meshgrid(f, f, f, indexing='ij')
    ii, jj, kk = np.meshgrid(np.arange(n), np.arange(n), np.arange(n), indexing='ij')
    w = np.asarray(weights, dtype=np.float64)
    if w.shape[2] == n and n // 2 + 1 != n:
        # full real-space mesh given (fourier=False): the kernel reads only the
        # first n//2+1 planes and doubles them
        pass
    half = kk <= n // 2
    ci, cj, ck = (-ii) % n, (-jj) % n, (-kk) % n
    val = np.where(half, w[ii, jj, np.minimum(kk, n // 2)], w[ci, cj, np.minimum(ck, n // 2)])
    return fi.ravel(), fj.ravel(), fk.ravel(), val.ravel()


def _assign(x, edges2):
    """For each x: (lo_bin, hi_bin) admissible bins; -1 = below range, nb = above range."""
    nb = len(edges2) - 1
    x = np.asarray(x, dtype=np.float64)
    tol = TIE * np.maximum(np.abs(x), 1.0)
    lo = np.searchsorted(edges2, x - tol, side='right') - 1
    hi = np.searchsorted(edges2, x + tol, side='right') - 1
    # exactly on an edge counts as ambiguous as well
    lo2 = np.searchsorted(edges2, x, side='left') - 1
    lo = np.minimum(lo, lo2)
    return np.clip(lo, -1, nb), np.clip(hi, -1, nb)


def bin_kmu_ref(n, L, kedges, muedges, weights, poles=(), fourier=True):
    dk = 2 * np.pi / L if fourier else L / n
    fi, fj, fk, val = full_modes(n, weights, fourier)
    k2 = (fi * fi + fj * fj + fk * fk).astype(np.float64)
    mu2 = np.where(k2 > 0, (fk * fk) / np.maximum(k2, 1), 0.0)
    ke2 = (np.asarray(kedges, dtype=np.float64) / dk) ** 2
    me2 = np.asarray(muedges, dtype=np.float64) ** 2
    Nk, Nmu = len(ke2) - 1, len(me2) - 1
    klo, khi = _assign(k2, ke2)
    # mu: right-closed at 1 (mu2 == 1 belongs to the last bin)
    mlo, mhi = _assign(mu2, me2)
    mlo = np.clip(mlo, 0, Nmu - 1)
    mhi = np.clip(mhi, 0, Nmu - 1)
    amb = (klo != khi) | (mlo != mhi)
    sure = ~amb & (klo >= 0) & (klo < Nk)
    cnt_lo = np.zeros((Nk, Nmu), dtype=np.int64)
    np.add.at(cnt_lo, (klo[sure], mlo[sure]), 1)
    cnt_hi = cnt_lo.copy()
    ambbin = np.zeros((Nk, Nmu), dtype=bool)
    for idx in np.nonzero(amb)[0]:
        for kb in range(max(klo[idx], 0), min(khi[idx], Nk - 1) + 1):
            if kb < 0 or kb >= Nk:
                continue
            for mb in range(mlo[idx], mhi[idx] + 1):
                cnt_hi[kb, mb] += 1
                ambbin[kb, mb] = True
    tot_lo = int(sure.sum())
    tot_hi = tot_lo + int((amb & (khi >= 0) & (klo < Nk)).sum())
    sumv = np.zeros((Nk, Nmu))
    sumk = np.zeros((Nk, Nmu))
    np.add.at(sumv, (klo[sure], mlo[sure]), val[sure])
    np.add.at(sumk, (klo[sure], mlo[sure]), np.sqrt(k2[sure]) * dk)
    with np.errstate(invalid='ignore', divide='ignore'):
        meanv = np.where(cnt_lo > 0, sumv / cnt_lo, 0.0)
        meank = np.where(cnt_lo > 0, sumk / cnt_lo, 0.0)
    pole_means = np.zeros((len(poles), Nk))
    cnt_k = cnt_lo.sum(axis=1)
    mu = np.sqrt(mu2)
    for ip, ell in enumerate(poles):
        c = np.zeros(int(ell) + 1)
        c[int(ell)] = 1
        leg = np.polynomial.legendre.legval(mu, c) * (2 * int(ell) + 1)
        s = np.zeros(Nk)
        np.add.at(s, klo[sure], (val * leg)[sure])
        with np.errstate(invalid='ignore', divide='ignore'):
            pole_means[ip] = np.where(cnt_k > 0, s / cnt_k, 0.0)
    absv = np.zeros((Nk, Nmu))
    np.add.at(absv, (klo[sure], mlo[sure]), np.abs(val[sure]))
    return {'cnt_lo': cnt_lo, 'cnt_hi': cnt_hi, 'amb': ambbin, 'tot_lo': tot_lo, 'tot_hi': tot_hi,
            'mean': meanv, 'kmean': meank, 'poles': pole_means, 'amb_k': ambbin.any(axis=1), 'abs': absv,
            'n_modes': n ** 3}


def bin_kppi_ref(n, L, kedges, pimax, Npi, weights, fourier=True):
    dk = 2 * np.pi / L if fourier else L / n
    fi, fj, fk, val = full_modes(n, weights, fourier)
    kp2 = (fi * fi + fj * fj).astype(np.float64)
    kz2 = (fk * fk).astype(np.float64)
    ke2 = (np.asarray(kedges, dtype=np.float64) / dk) ** 2
    pe2 = (np.linspace(0.0, pimax, Npi + 1) / dk) ** 2
    Nk = len(ke2) - 1
    klo, khi = _assign(kp2, ke2)
    plo, phi = _assign(kz2, pe2)
    amb = (klo != khi) | (plo != phi)
    inr = lambda a, n_: (a >= 0) & (a < n_)
    sure = ~amb & inr(klo, Nk) & inr(plo, Npi)
    cnt_lo = np.zeros((Nk, Npi), dtype=np.int64)
    np.add.at(cnt_lo, (klo[sure], plo[sure]), 1)
    cnt_hi = cnt_lo.copy()
    ambbin = np.zeros((Nk, Npi), dtype=bool)
    for idx in np.nonzero(amb)[0]:
        for kb in range(max(klo[idx], 0), min(khi[idx], Nk - 1) + 1):
            for pb in range(max(plo[idx], 0), min(phi[idx], Npi - 1) + 1):
                cnt_hi[kb, pb] += 1
                ambbin[kb, pb] = True
    sumv = np.zeros((Nk, Npi))
    np.add.at(sumv, (klo[sure], plo[sure]), val[sure])
    absv = np.zeros((Nk, Npi))
    np.add.at(absv, (klo[sure], plo[sure]), np.abs(val[sure]))
    with np.errstate(invalid='ignore', divide='ignore'):
        meanv = np.where(cnt_lo > 0, sumv / cnt_lo, 0.0)
    return {'cnt_lo': cnt_lo, 'cnt_hi': cnt_hi, 'amb': ambbin, 'mean': meanv, 'abs': absv}
