"""Helpers shared by the E1 property modules: schedule configuration drawn from
the case PRNG, one simulated execution, summary of what the scheduler did."""
import numpy as np

from instr import rt
from . import sched
from .sched import SIM, plain

POLICIES = ['static', 'static', 'cyclic', 'dynamic']
STRATEGIES = ['serial', 'random', 'random', 'pct', 'pct']


def gen_sched(rng, policies=POLICIES, strategies=STRATEGIES):
    return {
        'policy': rng.choice(policies),
        'strategy': rng.choice(strategies),
        'p_switch': rng.choice([0.02, 0.2, 0.5]),
        'pct_depth': rng.choice([1, 2, 3]),
        'seed': rng.randrange(1 << 30),
    }


def configure(s, max_threads=16, poison='A', replay=None, directed=None):
    rt.Alloc.set(poison)
    rt.Alloc.reset()
    rt.Clock.reset()
    SIM.reset(seed=s.get('seed', 0), max_threads=max_threads, policy=s.get('policy', 'static'),
              strategy=s.get('strategy', 'serial'), p_switch=s.get('p_switch', 0.2),
              pct_depth=s.get('pct_depth', 2), replay=replay if replay is not None else s.get('replay'),
              directed=directed if directed is not None else s.get('directed'))


def summary():
    c, nb = SIM.n_conflicts()
    return {
        'regions': [[R.name.split('#')[0], R.n, R.T, R.steps] for R in SIM.regions],
        'steps': SIM.total_steps,
        'switches': SIM.n_switches(),
        'conflicts': c,
        'benign_conflicts': nb,
        'oob': len(SIM.oob_events),
        'replay_diverged': SIM.replay_diverged,
    }


def run(fn, s, max_threads=16, poison='A', replay=None, directed=None):
    """Execute ``fn()`` (which calls simulated kernels) under schedule config
    ``s``.  Returns (result | None, exception | None, summary)."""
    configure(s, max_threads=max_threads, poison=poison, replay=replay, directed=directed)
    res, exc = None, None
    try:
        res = plain(fn())
    except sched.HarnessError:
        raise
    except Exception as e:   # exceptions of the code under test are data for the oracle
        exc = e
    return res, exc, summary()


def schedule_rle():
    return [list(x) for x in SIM.schedule]


def without_replay(s):
    """The schedule config for a *different* execution of the same case (other call sequence): the pinned thread
    choices do not apply to it; the strategy that produced them does."""
    out = {k: v for k, v in s.items() if k != 'replay'}
    st = str(out.get('strategy', 'serial'))
    if st.startswith('replay-of-'):
        out['strategy'] = st[len('replay-of-'):]
    return out


def pin_with(run_under_test, case):
    """Execute ``run_under_test(case)`` (which must perform, as its last simulated
    execution, the run whose interleaving matters) and return a copy of the case whose
    schedule config carries the recorded thread choices."""
    import copy
    run_under_test(case)
    c = copy.deepcopy(case)
    c['sched'] = dict(c['sched'], replay=schedule_rle(), strategy='replay-of-' + str(case['sched'].get('strategy')))
    return c


def sig_key(summ):
    """Conflict-relevant projection of a run, for counting distinct interleavings."""
    return [summ['regions'], summ['switches'] if summ['switches'] < 8 else '8+', summ['conflicts'] > 0]


def close(a, b, atol, rtol=0.0):
    a = np.asarray(a, dtype=np.float64)
    b = np.asarray(b, dtype=np.float64)
    if a.shape != b.shape:
        return False, float('inf')
    if a.size == 0:
        return True, 0.0
    d = np.abs(a - b)
    bad = ~(d <= atol + rtol * np.abs(b))
    bad |= np.isnan(a) != np.isnan(b)
    d = np.where(np.isnan(d), 0.0, d)
    return not bad.any(), float(d.max())


LAYOUTS = ['C', 'C', 'C', 'cols-view', 'fortran', 'strided', 'readonly']


def with_layout(a, kind, writable_needed=False):
    """The same values in another legal memory layout: a column view of a wider array, Fortran order, every second
    row of a longer array, or a read-only array.  (All of them are accepted by the unchanged package.)"""
    if a is None:
        return None
    a = np.asarray(a)
    if kind in (None, 'C') or a.size == 0:
        return a.copy()
    if kind == 'readonly':
        b = a.copy()
        if not writable_needed:
            b.setflags(write=False)
        return b
    if kind == 'fortran':
        return np.array(a, order='F', copy=True) if a.ndim > 1 else a.copy()     # always a new array
    if kind == 'cols-view' and a.ndim == 2:
        big = np.full((a.shape[0], a.shape[1] + 1), -7, dtype=a.dtype)
        big[:, :-1] = a
        return big[:, :-1]
    big = np.repeat(a, 2, axis=0)          # 'strided' (and 'cols-view' of a 1-D array)
    big[1::2] = 0
    if big.dtype.kind == 'f':
        big[1::2] = np.nan
    return big[::2]
