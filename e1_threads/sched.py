"""E1 -- deterministic simulator of numba ``prange`` regions.

A parallel region is ``n`` iterations executed by ``T`` simulated threads.
The instrumented source (instr.loader, mode "sim") turns every prange body
into a generator with a ``yield`` before each statement that touches an array
element and in the middle of every ``a[i] op= v`` (load / yield / store), which
is exactly the lost-update window of the compiled code.  This module decides,
from one seeded PRNG, (a) which iteration runs on which simulated thread and
(b) which thread advances at every yield.  A run is therefore a pure function
of (code, inputs, seed); the choices are recorded run-length encoded so that a
replay does not depend on the strategy's implementation.

Arrays seen by simulated kernels are ``TA`` instances (an ndarray subclass that
logs element loads/stores while a region is active).  numpy's own bounds
checking turns any out-of-range integer index into an IndexError, which is
reported as an OOB event (numba would silently touch neighbouring memory).
"""
import operator
import random
import sys
import types

import numpy as np

from instr import rt

_nd_getitem = np.ndarray.__getitem__
_nd_setitem = np.ndarray.__setitem__


class SimOOB(IndexError):
    pass


class HarnessError(Exception):
    pass


class TA(np.ndarray):
    """Tracked array."""

    def __array_finalize__(self, obj):
        self._p = None

    def __getitem__(self, idx):
        S = SIM
        if S.logging:
            try:
                S.log(self, idx, 0, None)
            except IndexError as e:
                S.oob(self, idx, 0, e)
                raise
        try:
            return _nd_getitem(self, idx)
        except IndexError as e:
            if S.in_kernel:
                S.oob(self, idx, 0, e)
            raise

    def __iter__(self):
        # ndarray subclasses iterate through the sequence protocol, i.e. through
        # __getitem__ until IndexError; that terminal IndexError is not an access
        for i in range(self.shape[0]):
            yield self[i]

    def __setitem__(self, idx, val):
        S = SIM
        if S.logging:
            try:
                S.log(self, idx, 1, val)
            except IndexError as e:
                S.oob(self, idx, 1, e)
                raise
        try:
            _nd_setitem(self, idx, val)
        except IndexError as e:
            if S.in_kernel:
                S.oob(self, idx, 1, e)
            raise


def track(a, label=None):
    if type(a) is np.ndarray:
        t = a.view(TA)
        if label is not None:
            SIM.register(t, label)
        return t
    if isinstance(a, TA) and label is not None:
        SIM.register(a, label)
    return a


def plain(a):
    """Strip tracking (deep through tuples/dicts) for oracles."""
    if isinstance(a, np.ndarray):
        return np.array(a.view(np.ndarray), copy=True)
    if isinstance(a, tuple):
        return tuple(plain(x) for x in a)
    if isinstance(a, list):
        return [plain(x) for x in a]
    if isinstance(a, dict):
        return {k: plain(v) for k, v in a.items()}
    return a


class Region:
    __slots__ = ('name', 'n', 'T', 'acc', 'wchg', 'assign', 'steps', 'first_read', 'wval', 'wdiff')

    def __init__(self, name, n, T):
        self.name = name
        self.n = n
        self.T = T
        self.acc = {}       # addr -> [rmask, wmask]
        self.wchg = set()   # addrs with at least one value-changing write
        self.first_read = {}  # (thread, addr) -> thread-local step of first load
        self.wval = {}      # addr -> first value stored in this region
        self.wdiff = set()  # addrs that received two different values
        self.steps = 0


class Sim:
    """Global simulator state (one per process; reset per run)."""

    def __init__(self):
        self.reset()

    # ------------------------------------------------------------ config --
    def reset(self, seed=0, max_threads=16, policy='static', strategy='serial',
              p_switch=0.2, pct_depth=2, replay=None, directed=None, log=True,
              step_cap=5_000_000):
        self.rng = random.Random(seed)
        self.max_threads = max_threads
        self.T = max_threads
        self.policy = policy
        self.strategy = strategy
        self.p_switch = p_switch
        self.pct_depth = pct_depth
        self.replay = list(replay) if replay is not None else None   # list of [tid, count]
        self.directed = directed   # {'region': k, 'a': tA, 'b': tB, 'steps': k}
        self.want_log = log
        self.step_cap = step_cap
        # state
        self.in_region = False
        self.in_kernel = 0
        self.logging = False
        self.cur = 0
        self.local_step = None
        self.region = None
        self.regions = []        # finished Region objects
        self.schedule = []       # RLE list of [tid, count]
        self.oob_events = []
        self.total_steps = 0
        self.roots = []          # (ptr, nbytes, label, shape, itemsize)
        self.set_threads_calls = []
        self.region_counter = 0
        self.replay_pos = 0
        self.replay_left = 0
        self.replay_diverged = False
        self.pct_prio = None

    # ---------------------------------------------------------- registry --
    def register(self, a, label):
        try:
            p = a.__array_interface__['data'][0]
        except Exception:
            return
        self.roots.append((p, a.nbytes if a.flags.c_contiguous else 0, label, a.shape, a.itemsize))

    def describe(self, addr):
        best = None
        for (p, nb, label, shape, isz) in self.roots:
            if nb and p <= addr < p + nb:
                flat = (addr - p) // isz
                try:
                    idx = tuple(int(x) for x in np.unravel_index(flat, shape))
                except Exception:
                    idx = (int(flat),)
                cand = (nb, label, idx)
                if best is None or cand[0] < best[0]:
                    best = cand
        if best is None:
            return {'array': '?', 'index': None}
        return {'array': best[1], 'index': list(best[2])}

    # ------------------------------------------------------------ access --
    def _addr(self, a, idx):
        p = a._p
        if p is None:
            p = a._p = (a.__array_interface__['data'][0], a.strides, a.shape)
        base, st, sh = p
        if type(idx) is tuple:
            if len(idx) != len(sh):
                return None
            off = 0
            for k in range(len(sh)):
                try:
                    i = operator.index(idx[k])
                except TypeError:
                    return None
                n = sh[k]
                if i < 0:
                    i += n
                if i < 0 or i >= n:
                    raise IndexError('index %r out of bounds for axis %d with size %d' % (idx[k], k, n))
                off += i * st[k]
            return base + off
        if len(sh) != 1:
            return None
        try:
            i = operator.index(idx)
        except TypeError:
            return None
        n = sh[0]
        if i < 0:
            i += n
        if i < 0 or i >= n:
            raise IndexError('index %r out of bounds for axis 0 with size %d' % (idx, n))
        return base + i * st[0]

    def _addrs_of_view(self, v):
        if v.size == 0:
            return ()
        base = v.__array_interface__['data'][0]
        off = np.zeros((), dtype=np.int64)
        for n, s in zip(v.shape, v.strides):
            off = np.add.outer(off, np.arange(n, dtype=np.int64) * s)
        return (base + off.reshape(-1)).tolist()

    def log(self, a, idx, w, val):
        addr = self._addr(a, idx)
        R = self.region
        t = self.cur
        bit = 1 << t
        if addr is not None:
            e = R.acc.get(addr)
            if e is None:
                e = R.acc[addr] = [0, 0]
            if w:
                e[1] |= bit
                if addr not in R.wdiff:
                    try:
                        vb = np.asarray(val).tobytes()
                    except Exception:
                        vb = None
                    if addr not in R.wval:
                        R.wval[addr] = vb
                    elif R.wval[addr] != vb or vb is None:
                        R.wdiff.add(addr)
                if addr not in R.wchg:
                    try:
                        old = _nd_getitem(a, idx)
                        if not (old == val) and not (old != old and val != val):
                            R.wchg.add(addr)
                    except Exception:
                        R.wchg.add(addr)
            else:
                e[0] |= bit
                k = (t, addr)
                if k not in R.first_read:
                    R.first_read[k] = self.local_step[t]
            return
        # sub-array access: expand to elements
        v = _nd_getitem(a, idx)
        if not isinstance(v, np.ndarray):
            return
        for addr in self._addrs_of_view(v):
            e = R.acc.get(addr)
            if e is None:
                e = R.acc[addr] = [0, 0]
            e[w] |= bit
            if w:
                R.wchg.add(addr)
                R.wdiff.add(addr)

    def oob(self, a, idx, w, exc):
        ev = {'kind': 'oob', 'write': bool(w), 'shape': list(a.shape),
              'index': repr(idx), 'msg': str(exc),
              'region': self.region.name if self.region else None}
        if len(self.oob_events) < 20:
            self.oob_events.append(ev)

    # --------------------------------------------------- numba API shims --
    def set_num_threads(self, n):
        n = int(n)
        if n < 1 or n > self.max_threads:
            raise ValueError('The number of threads must be between 1 and %d' % self.max_threads)
        self.T = n
        self.set_threads_calls.append(n)

    def get_num_threads(self):
        return self.T

    def get_thread_id(self):
        return self.cur if self.in_region else 0

    # --------------------------------------------------------- scheduler --
    def _assign(self, n, T):
        pol = self.policy
        if pol == 'static':
            # contiguous chunks, sizes differ by at most one (OpenMP static / numba workqueue)
            q, r = divmod(n, T)
            out, s = [], 0
            for t in range(T):
                c = q + (1 if t < r else 0)
                out.append(list(range(s, s + c)))
                s += c
            return out, None
        if pol == 'cyclic':
            return [list(range(t, n, T)) for t in range(T)], None
        if pol == 'dynamic':
            order = list(range(n))
            self.rng.shuffle(order)
            return [[] for _ in range(T)], order
        raise HarnessError('unknown policy %r' % pol)

    def _record(self, t):
        s = self.schedule
        if s and s[-1][0] == t:
            s[-1][1] += 1
        else:
            s.append([t, 1])

    def parallel_for(self, n, body, name):
        n = int(n)
        if self.in_region:
            # nested parallel region: numba serialises it on the calling thread
            for i in range(n):
                for _ in body(i):
                    pass
            return
        T = self.T
        rid = self.region_counter
        self.region_counter += 1
        R = Region('%s#%d' % (name, rid), n, T)
        self.region = R
        self.in_region = True
        self.logging = self.want_log
        chunks, queue = self._assign(n, T)
        R.assign = [list(c) for c in chunks] if queue is None else ('dynamic', list(queue))

        def thread_gen(t):
            if queue is None:
                for i in chunks[t]:
                    yield from body(i)
            else:
                while queue:
                    i = queue.pop(0)
                    yield from body(i)

        gens = [thread_gen(t) for t in range(T)]
        alive = list(range(T))
        self.local_step = [0] * T
        rng = self.rng
        strategy = self.strategy
        directed = self.directed if (self.directed and self.directed.get('region') == rid) else None
        if self.replay is not None:
            strategy = 'replay'
        elif directed is not None:
            strategy = 'directed'
        order = list(range(T))
        if strategy in ('serial', 'pct'):
            rng.shuffle(order)
        prio = {t: T - k for k, t in enumerate(order)}   # pct priorities
        change_points = set()
        if strategy == 'pct':
            # priority change points drawn over an estimate of the region length
            est = max(8, 40 * max(1, n))
            change_points = {rng.randrange(est) for _ in range(self.pct_depth)}
        cur = order[0] if alive else None
        dstate = 0
        try:
            while alive:
                # ---------------- choose
                if strategy == 'serial':
                    t = next(x for x in order if x in alive)
                elif strategy == 'random':
                    if cur not in alive or rng.random() < self.p_switch:
                        cur = alive[rng.randrange(len(alive))]
                    t = cur
                elif strategy == 'pct':
                    if R.steps in change_points and cur in alive:
                        prio[cur] = min(prio.values()) - 1
                    t = max(alive, key=prio.__getitem__)
                    cur = t
                elif strategy == 'directed':
                    a, b, k = directed['a'], directed['b'], directed['steps']
                    if dstate == 0:
                        if a in alive and self.local_step[a] <= k:
                            t = a
                        else:
                            dstate = 1
                    if dstate == 1:
                        if b in alive:
                            t = b
                        else:
                            dstate = 2
                    if dstate == 2:
                        t = a if a in alive else alive[0]
                elif strategy == 'replay':
                    t = self._replay_next(alive)
                else:
                    raise HarnessError('unknown strategy %r' % strategy)
                # ---------------- step
                self.cur = t
                self._record(t)
                self.local_step[t] += 1
                R.steps += 1
                self.total_steps += 1
                if self.total_steps > self.step_cap:
                    raise HarnessError('step cap exceeded')
                try:
                    next(gens[t])
                except StopIteration:
                    alive.remove(t)
        finally:
            self.in_region = False
            self.logging = False
            self.cur = 0
            self.region = None
            self.regions.append(R)
            for g in gens:
                g.close()

    def _replay_next(self, alive):
        while True:
            if self.replay_left > 0:
                t = self.replay[self.replay_pos][0]
                if t in alive:
                    self.replay_left -= 1
                    if self.replay_left == 0:
                        self.replay_pos += 1
                    return t
                # recorded thread already finished: skip the rest of this segment
                self.replay_diverged = True
                self.replay_left = 0
                self.replay_pos += 1
                continue
            if self.replay_pos >= len(self.replay):
                self.replay_diverged = True
                return alive[0]
            self.replay_left = self.replay[self.replay_pos][1]
            if self.replay_left <= 0:
                self.replay_pos += 1
                self.replay_left = 0

    # ----------------------------------------------------------- results --
    def conflicts(self, include_benign=False, limit=8):
        """Elements accessed by two different simulated threads, at least one
        of them writing, within one region.  'benign' = no write changed the
        stored value (e.g. ``+= 0`` at an exact half-cell TSC edge): no schedule
        can change the result, so it is a probe, not a conflict."""
        out, nben = [], 0
        for R in self.regions:
            for addr, (rm, wm) in R.acc.items():
                if not wm:
                    continue
                allm = rm | wm
                if allm & (allm - 1) == 0:
                    continue   # single thread
                # need a writer and a *different* accessor
                if wm & (wm - 1) == 0 and (allm & ~wm) == 0:
                    continue
                # benign: no write changed the stored value, or every writer stored the same value and
                # nobody read the element (a pure same-value write-write race cannot change any result)
                benign = addr not in R.wchg or (addr not in R.wdiff and rm == 0)
                if benign:
                    nben += 1
                    if not include_benign:
                        continue
                if len(out) < limit:
                    ths = [t for t in range(R.T) if allm >> t & 1]
                    wts = [t for t in range(R.T) if wm >> t & 1]
                    d = self.describe(addr)
                    # a thread that loads then stores the element (RMW) and another writer
                    a = None
                    for t in wts:
                        if (t, addr) in R.first_read:
                            a = t
                            break
                    b = next((t for t in wts if t != a), None) if a is not None else None
                    out.append({'region': R.name, 'rid': int(R.name.rsplit('#', 1)[1]),
                                'addr': addr, 'threads': ths, 'writers': wts,
                                'benign': benign, 'where': d,
                                'rmw_thread': a, 'other_writer': b,
                                'rmw_step': R.first_read.get((a, addr)) if a is not None else None})
        return out, nben

    def n_conflicts(self):
        c, nb = 0, 0
        for R in self.regions:
            for addr, (rm, wm) in R.acc.items():
                if not wm:
                    continue
                allm = rm | wm
                if allm & (allm - 1) == 0:
                    continue
                if addr in R.wchg and not (addr not in R.wdiff and rm == 0):
                    c += 1
                else:
                    nb += 1
        return c, nb

    def access_signature(self):
        """Digest input describing the conflict-relevant projection of the run:
        per region, (name, T, number of shared written elements, switches)."""
        sig = []
        for R in self.regions:
            shared = 0
            for addr, (rm, wm) in R.acc.items():
                allm = rm | wm
                if wm and allm & (allm - 1):
                    shared += 1
            sig.append((R.name.split('#')[0], R.n, R.T, shared))
        return sig

    def n_switches(self):
        return max(0, len(self.schedule) - len(self.regions))


SIM = Sim()
rt.SIM = SIM


# ------------------------------------------------------------ simnumba ----
def _identity_decorator(*dargs, **dkw):
    if len(dargs) == 1 and callable(dargs[0]) and not dkw:
        f = dargs[0]
        try:
            f.py_func = f
        except Exception:
            pass
        return f

    def deco(f):
        try:
            f.py_func = f
        except Exception:
            pass
        return f
    return deco


class _FakeTypedDict(dict):
    @classmethod
    def empty(cls, key_type=None, value_type=None, **kw):
        return cls()


class _FakeTypedList(list):
    @classmethod
    def empty_list(cls, *a, **k):
        return cls()


def _build_simnumba():
    import numba as real
    m = types.ModuleType('simnumba')
    m.__dict__.update({k: getattr(real, k) for k in dir(real) if not k.startswith('__')})
    m.njit = _identity_decorator
    m.jit = _identity_decorator
    m.vectorize = _identity_decorator
    m.guvectorize = _identity_decorator
    m.prange = range      # only reached for pranges the transformer did not rewrite
    m.set_num_threads = lambda n: SIM.set_num_threads(n)
    m.get_num_threads = lambda: SIM.get_num_threads()
    m.get_thread_id = lambda: SIM.get_thread_id()

    class _Cfg:
        def __getattr__(self, k):
            if k == 'NUMBA_NUM_THREADS':
                return SIM.max_threads
            return getattr(real.config, k)
    m.config = _Cfg()
    typed = types.ModuleType('simnumba.typed')
    typed.Dict = _FakeTypedDict
    typed.List = _FakeTypedList
    m.typed = typed
    m.types = real.types
    sys.modules['simnumba'] = m
    sys.modules['simnumba.typed'] = typed
    return m


# --------------------------------------------------------------- simnp ----
_CREATORS_POISON = ('empty', 'empty_like')
_CREATORS = ('zeros', 'ones', 'zeros_like', 'ones_like', 'full', 'full_like', 'arange',
             'linspace', 'array', 'asarray', 'ascontiguousarray', 'cumsum', 'concatenate',
             'rint', 'floor', 'geomspace', 'logspace')


def _build_simnp():
    m = types.ModuleType('simnp')
    m.__dict__.update({k: getattr(np, k) for k in dir(np) if not k.startswith('__')})

    def wrap(f):
        def g(*a, **k):
            r = f(*a, **k)
            if type(r) is np.ndarray:
                r = r.view(TA)
                SIM.register(r, f.__name__)
            return r
        g.__name__ = getattr(f, '__name__', 'f')
        return g
    for name in _CREATORS:
        setattr(m, name, wrap(getattr(np, name)))

    def empty(*a, **k):
        r = rt.alloc_empty(*a, **k).view(TA)
        SIM.register(r, 'empty')
        return r

    def empty_like(*a, **k):
        r = rt.alloc_empty_like(*a, **k).view(TA)
        SIM.register(r, 'empty_like')
        return r
    m.empty = empty
    m.empty_like = empty_like
    sys.modules['simnp'] = m
    return m


_build_simnumba()
_build_simnp()
