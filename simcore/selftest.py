"""Self-tests of the machinery itself.

determinism : N seeds x property, executed twice in fresh interpreters with
              different PYTHONHASHSEED and worker counts; event digests must agree.
sensitivity : realistic single-site mutations are applied to a scratch copy of
              the repository (outside /repo and /verif), the quick check is run
              with VERIF_REPO pointing at it and must report a VIOLATION.
"""
import json
import os
import shutil
import subprocess
import sys
import tempfile
import time

from . import boot

VERIF = boot.VERIF

# (name, property, file, old, new)
MUTATIONS = [
    ('c14-remaining-3', 'C14', 'abacusnbody/data/asdf.py',
     'remaining = 4 - len(_partial_len)', 'remaining = 3 - len(_partial_len)'),
    ('c14-partial-lt3', 'C14', 'abacusnbody/data/asdf.py',
     'if len(_partial_len) + len(block) < 4:', 'if len(_partial_len) + len(block) < 3:'),
    ('c14-no-partial-reset', 'C14', 'abacusnbody/data/asdf.py',
     "                        _partial_len = b''\n", ''),
    ('c14-buffer-not-cleared', 'C14', 'abacusnbody/data/asdf.py',
     '                        _buffer = None\n                        _size = 0', '                        _size = 0'),
    ('c14-reassembly-buffer-shared', 'C14', 'abacusnbody/data/asdf.py',
     ['                        _buffer = np.empty(\n                            _size, dtype=np.byte\n                        )',
      '        _partial_len = b\'\'\n\n        decompression_time = 0.0'],
     ['                        _buffer = BloscCompressor._scratch[:_size]',
      '        _partial_len = b\'\'\n        if not hasattr(BloscCompressor, \'_scratch\'):\n            BloscCompressor._scratch = np.empty(1 << 24, dtype=np.byte)\n\n        decompression_time = 0.0']),
    # ---- C07
    ('c07-allow-half-grid', 'C07', 'abacusnbody/analysis/tsc.py',
     'if npartition > 1 and 3 * npartition >= n1d and nthread > 1:',
     'if npartition > 1 and 3 * npartition >= n1d and npartition != n1d // 2 and nthread > 1:'),
    ('c07-default-too-fine', 'C07', 'abacusnbody/analysis/tsc.py',
     'npartition = min((n1d - 1) // 3, 2 * nthread)', 'npartition = min(n1d // 2, 2 * nthread)'),
    ('c07-three-cell-stripes', 'C07', 'abacusnbody/analysis/tsc.py',
     ['npartition = min((n1d - 1) // 3, 2 * nthread)', 'if npartition > 1 and 3 * npartition >= n1d and nthread > 1:'],
     ['npartition = min(n1d // 3, 2 * nthread)', 'if npartition > 1 and 3 * npartition > n1d and nthread > 1:']),
    ('c07-odd-pass-count', 'C07', 'abacusnbody/analysis/tsc.py',
     'for i in numba.prange(npartition // 2):', 'for i in numba.prange((npartition + 1) // 2):'),
    ('c07-odd-pass-wrong-slice', 'C07', 'abacusnbody/analysis/tsc.py',
     'ppart[starts[2 * i + 1] : starts[2 * i + 2]],', 'ppart[starts[2 * i] : starts[2 * i + 2]],'),
    # ---- C02
    ('c02-stale-dtype', 'C02', 'abacusnbody/data/compaso_halo_catalog.py', 'np.empty(len(rawhalos), dtype=src[field]), name=field, copy=False', 'np.empty(len(rawhalos), dtype=src[col]), name=field, copy=False'),
    ('c02-index-cols-only-cleaned', 'C02', 'abacusnbody/data/compaso_halo_catalog.py', "        for AB in load_AB:\n            if 'npstart' + AB not in fields:", "        for AB in (load_AB if cleaned else []):\n            if 'npstart' + AB not in fields:"),
    ('c05-dependency-order', 'C05', 'abacusnbody/data/compaso_halo_catalog.py', 'fields_with_deps = list(dict.fromkeys(iter_fields[::-1]))', 'fields_with_deps = list(dict.fromkeys(iter_fields))'),
    ('c02-eigvec-sibling', 'C02', 'abacusnbody/data/compaso_halo_catalog.py', "            middle_field = m['rnv'] + 'Mid' + m['com']\n            if middle_field in halos.colnames:\n                columns[middle_field] = middle", "            middle_field = m['rnv'] + 'Mid' + m['com']\n            if middle_field in halos.colnames and minor_field not in halos.colnames:\n                columns[middle_field] = middle"),
    ('c02-N-total-not-added', 'C02', 'abacusnbody/data/compaso_halo_catalog.py', "            if 'N_total' not in fields:\n                fields += ['N_total']", "            if 'N_total' not in fields and len(fields) > 1:\n                fields += ['N_total']"),
    # ---- C03
    ('c03-per-file-count-not-updated', 'C03', 'abacusnbody/data/compaso_halo_catalog.py', '            N_halo_per_file[i] = N_superslab\n', ''),
    ('c03-no-truncation', 'C03', 'abacusnbody/data/compaso_halo_catalog.py', '        self.halos = self.halos[:N_written]\n', ''),
    ('c03-duplicates-allowed', 'C03', 'abacusnbody/data/compaso_halo_catalog.py', '                    if p == q:\n                        raise ValueError(', '                    if False:\n                        raise ValueError('),
    ('c03-mixed-allowed', 'C03', 'abacusnbody/data/compaso_halo_catalog.py', "                if not groupdir == p.parents[1] and not halo_lc:\n                    raise ValueError(\"Can't mix files from different catalogs!\")", "                if False:\n                    raise ValueError(\"Can't mix files from different catalogs!\")"),
    ('c03-filter-sees-raw-N', 'C03', 'abacusnbody/data/compaso_halo_catalog.py', "                if self.cleaned and not passthrough and 'N_total' in halos.colnames:\n                    halos.rename_column('N_total', 'N')\n\n                mask = self.filter_func(halos)", "                if self.cleaned and not passthrough and 'N_total' in halos.colnames:\n                    halos['N'] = rawhalos['N_total'] * 0 + 10**6 if 'N_total' in rawhalos.colnames else 0\n\n                mask = self.filter_func(halos)"),
    ('c03-compaction-offset', 'C03', 'abacusnbody/data/compaso_halo_catalog.py', '                halos[:nmask] = halos[mask]', '                halos[:nmask] = halos[mask][::-1] if nmask == 2 else halos[mask]'),
    ('c03-file-order-sorted', 'C03', 'abacusnbody/data/compaso_halo_catalog.py', '                halo_fns = path  # path is list of one or more files', '                halo_fns = sorted(path)  # path is list of one or more files'),
    # ---- C05
    ('c05-sigmav-box', 'C05', 'abacusnbody/data/compaso_halo_catalog.py', "                / INT16SCALE\n                * zspace_to_kms\n            )", "                / INT16SCALE\n                * box\n            )"),
    ('c05-int16-scale', 'C05', 'abacusnbody/data/compaso_halo_catalog.py', 'INT16SCALE = 32000.0', 'INT16SCALE = 32768.0'),
    ('c05-convert-off-still-scales', 'C05', 'abacusnbody/data/compaso_halo_catalog.py', '            box = 1.0\n            zspace_to_kms = 1.0', '            box = 1.0\n            zspace_to_kms = self.header[\'VelZSpace_to_kms\']'),
    ('c05-so-radius-unscaled', 'C05', 'abacusnbody/data/compaso_halo_catalog.py', "pat = re.compile(r'SO(?:_L2max)?(?:_central_particle|_radius)')", "pat = re.compile(r'SO(?:_L2max)?(?:_central_particle)')\n        self.halo_field_loaders[re.compile(r'SO(?:_L2max)?_radius')] = lambda m, raw, halos: raw[m[0]]"),
    ('c05-rvcirc-wrong-reference', 'C05', 'abacusnbody/data/compaso_halo_catalog.py', "            * raw['r100' + m['com']]\n            / INT16SCALE\n            * box\n        )\n\n        # sigmavMin", "            * raw['r100_com']\n            / INT16SCALE\n            * box\n        )\n\n        # sigmavMin"),
    ('c05-lc-origin', 'C05', 'abacusnbody/data/compaso_halo_catalog.py', "lambda m, raw, halos: raw[m[0]] % 3", "lambda m, raw, halos: raw[m[0]] % 4"),
    # ---- C06
    ('c06-centre-weight', 'C06', 'abacusnbody/analysis/tsc.py', 'wy = P75 - dy**2', 'wy = P75 - dy'),
    ('c06-floor-not-round', 'C06', 'abacusnbody/analysis/tsc.py', 'iz = itype(round(pz))', 'iz = itype(pz)'),
    ('c06-offset-ignored-z', 'C06', 'abacusnbody/analysis/tsc.py',
     'pz = (positions[n, 2] + offset) * inv_hz', 'pz = positions[n, 2] * inv_hz'),
    ('c06-wrap-single-branch', 'C06', 'abacusnbody/analysis/tsc.py',
     '            elif pos[i, j] < 0:\n                pos[i, j] += box', '            elif pos[i, j] < 0:\n                pos[i, j] = -pos[i, j]'),
    ('c06-cic-swapped-neighbours', 'C06', 'abacusnbody/analysis/cic.py',
     '        if dy > 0.0:\n            wym1 = dy\n            wyp1 = 0.0', '        if dy > 0.0:\n            wyp1 = dy\n            wym1 = 0.0'),
    ('c06-cic-weight-dropped', 'C06', 'abacusnbody/analysis/cic.py',
     'density[ixp1, iyp1, izp1] += wxp1 * wyp1 * wzp1 * W', 'density[ixp1, iyp1, izp1] += wxp1 * wyp1 * wzp1'),
    ('c06-anisotropic-hy', 'C06', 'abacusnbody/analysis/tsc.py', 'inv_hy = ftype(gy / boxsize)', 'inv_hy = ftype(gx / boxsize)'),
    ('c06-rightwrap-if', 'C06', 'abacusnbody/analysis/tsc.py', '    while x >= L:\n        x -= L', '    if x >= L:\n        x -= L'),
    # ---- C08
    ('c08-shared-accumulator', 'C08', 'abacusnbody/analysis/power_spectrum.py',
     '        tid = numba.get_thread_id()\n        i2 = i**2 if i < (n1d + 1) // 2 else (i - n1d) ** 2\n        for j in range(n1d):\n            bk, bmu = 0, 0',
     '        tid = 0\n        i2 = i**2 if i < (n1d + 1) // 2 else (i - n1d) ** 2\n        for j in range(n1d):\n            bk, bmu = 0, 0'),
    ('c08-float32-counters', 'C08', 'abacusnbody/analysis/power_spectrum.py', 'counts = np.zeros((nthread, Nk, Nmu), dtype=np.int64)', 'counts = np.zeros((nthread, Nk, Nmu), dtype=np.float32)'),
    ('c08-nyquist-doubled', 'C08', 'abacusnbody/analysis/power_spectrum.py',
     'single = k == 0 or 2 * k == n1d\n                counts[tid, bk, bmu]', 'single = k == 0\n                counts[tid, bk, bmu]'),
    ('c08-first-edge-open', 'C08', 'abacusnbody/analysis/power_spectrum.py',
     '                if kmag2 < kedges2[0]:\n                    continue\n\n                if kmag2 >= kedges2[-1]:\n                    break\n\n                while kmag2 > kedges2[bk + 1]:',
     '                if kmag2 < kedges2[0]:\n                    continue\n\n                if kmag2 >= kedges2[-1]:\n                    continue\n\n                while kmag2 > kedges2[bk]:'),
    ('c08-pole-weight', 'C08', 'abacusnbody/analysis/power_spectrum.py',
     'pw = dtype(2 * pole + 1) * P_n(mu2, pole)', 'pw = dtype(2 * pole) * P_n(mu2, pole)'),
    ('c08-kavg-units', 'C08', 'abacusnbody/analysis/power_spectrum.py',
     'np.sqrt(kmag2) * dk if single else dtype(2.0) * np.sqrt(kmag2) * dk', 'np.sqrt(kmag2) * dk if single else np.sqrt(kmag2) * dk'),
    ('c08-bin-state-not-reset', 'C08', 'abacusnbody/analysis/power_spectrum.py',
     '        for j in range(n1d):\n            bk, bmu = 0, 0\n', '        bk, bmu = 0, 0\n        for j in range(n1d):\n'),
    ('c08-kppi-break-again', 'C08', 'abacusnbody/analysis/power_spectrum.py',
     '            if kmag2 >= kedges2[-1]:\n                continue\n\n            while kmag2 > kedges2[bk + 1]:',
     '            if kmag2 >= kedges2[-1]:\n                break\n\n            while kmag2 > kedges2[bk + 1]:'),
    ('c08-odd-fold', 'C08', 'abacusnbody/analysis/power_spectrum.py',
     '            j2 = j**2 if j < (n1d + 1) // 2 else (j - n1d) ** 2\n            for k in range(kzlen):\n                kmag2 = dtype(i2 + j2 + k**2)\n                if kmag2 > 0:\n                    invkmag2 = kmag2**-1\n                    mu2 = dtype(k**2) * invkmag2\n                else:\n                    mu2 = dtype(0.0)  # matches nbodykit\n\n                if kmag2 < kedges2[0]:',
     '            j2 = j**2 if j < n1d // 2 else (j - n1d) ** 2\n            for k in range(kzlen):\n                kmag2 = dtype(i2 + j2 + k**2)\n                if kmag2 > 0:\n                    invkmag2 = kmag2**-1\n                    mu2 = dtype(k**2) * invkmag2\n                else:\n                    mu2 = dtype(0.0)  # matches nbodykit\n\n                if kmag2 < kedges2[0]:'),
    ('c08-legendre-coefficient', 'C08', 'abacusnbody/analysis/power_spectrum.py',
     'sum *= dtype(0.5**n)', 'sum *= dtype(0.5 ** (n - 1))'),
    # ---- C13
    ('c13-shift-transposed', 'C13', 'abacusnbody/analysis/power_spectrum.py',
     'field_fft[i, j, k] += field_shift_fft[i, j, k] * np.exp(', 'field_fft[i, j, k] += field_shift_fft[j, i, k] * np.exp('),
    ('c13-cross-missing-conj', 'C13', 'abacusnbody/analysis/power_spectrum.py',
     'raw_p3d = (np.conj(field_fft) * field2_fft).real', 'raw_p3d = (field_fft * field2_fft).real'),
    ('c13-shared-accumulator', 'C13', 'abacusnbody/analysis/power_spectrum.py',
     '        tid = numba.get_thread_id()\n        i2 = i**2 if i < (n1d + 1) // 2 else (i - n1d) ** 2\n        for j in range(n1d):\n            bk, bmu = 0, 0',
     '        tid = 0\n        i2 = i**2 if i < (n1d + 1) // 2 else (i - n1d) ** 2\n        for j in range(n1d):\n            bk, bmu = 0, 0'),
    ('c13-second-field-uncompensated', 'C13', 'abacusnbody/analysis/power_spectrum.py',
     '            w2,\n            W,\n            compensated,\n            interlaced,', '            w2,\n            W,\n            False,\n            interlaced,'),
    ('c13-narrow-stripes', 'C13', 'abacusnbody/analysis/tsc.py',
     ['if npartition > 1 and 3 * npartition >= n1d and nthread > 1:', 'npartition = min((n1d - 1) // 3, 2 * nthread)'],
     ['if npartition > 1 and npartition > n1d // 2 and nthread > 1:', 'npartition = min(n1d // 2, 2 * nthread)']),
    ('c13-narrow-default', 'C13', 'abacusnbody/analysis/tsc.py',
     'npartition = min((n1d - 1) // 3, 2 * nthread)', 'npartition = min(n1d // 2, 2 * nthread)'),
    # ---- C09
    ('c09-elg-not-stacked', 'C09', 'abacusnbody/hod/GRAND_HOD.py', '            ELG_marker = LRG_marker\n            if want_ELG:\n                logM_cut_E_temp = (\n                    logM_cut_E + Ac_E * deltac[i]',
     '            ELG_marker = 0\n            if want_ELG:\n                logM_cut_E_temp = (\n                    logM_cut_E + Ac_E * deltac[i]'),
    ('c09-cent-strict-threshold', 'C09', 'abacusnbody/hod/GRAND_HOD.py', '            if randoms[i] <= LRG_marker:\n                Nout[tid, 0, 0] += 1  # counting\n                keep[i] = 1\n            elif randoms[i] <= ELG_marker:\n                Nout[tid, 1, 0] += 1  # counting\n                keep[i] = 2\n            elif randoms[i] <= QSO_marker:\n                Nout[tid, 2, 0] += 1  # counting\n                keep[i] = 3\n            else:\n                keep[i] = 0\n\n    # compose galaxy array, first create array of galaxy starting indices for the threads\n    gstart = np.empty((Nthread + 1, 3), dtype=np.int64)\n    gstart[0, :] = 0\n    gstart[1:, 0] = Nout[:, 0, 0].cumsum()\n    gstart[1:, 1] = Nout[:, 1, 0].cumsum()\n    gstart[1:, 2] = Nout[:, 2, 0].cumsum()\n\n    # galaxy arrays\n    N_lrg = gstart[-1, 0]\n    lrg_x = np.empty(N_lrg, dtype=mass.dtype)',
     '            if randoms[i] <= LRG_marker * 0.999:\n                Nout[tid, 0, 0] += 1  # counting\n                keep[i] = 1\n            elif randoms[i] <= ELG_marker:\n                Nout[tid, 1, 0] += 1  # counting\n                keep[i] = 2\n            elif randoms[i] <= QSO_marker:\n                Nout[tid, 2, 0] += 1  # counting\n                keep[i] = 3\n            else:\n                keep[i] = 0\n\n    # compose galaxy array, first create array of galaxy starting indices for the threads\n    gstart = np.empty((Nthread + 1, 3), dtype=np.int64)\n    gstart[0, :] = 0\n    gstart[1:, 0] = Nout[:, 0, 0].cumsum()\n    gstart[1:, 1] = Nout[:, 1, 0].cumsum()\n    gstart[1:, 2] = Nout[:, 2, 0].cumsum()\n\n    # galaxy arrays\n    N_lrg = gstart[-1, 0]\n    lrg_x = np.empty(N_lrg, dtype=mass.dtype)'),
    ('c09-multiplicity-dropped', 'C09', 'abacusnbody/hod/GRAND_HOD.py', 'N_cen_QSO(mass[i], logM_cut_Q_temp, sigma_Q) * ic_Q * multis[i]', 'N_cen_QSO(mass[i], logM_cut_Q_temp, sigma_Q) * ic_Q'),
    ('c09-wrong-host-id', 'C09', 'abacusnbody/hod/GRAND_HOD.py', '                elg_mass[j2] = hmass[i]\n                elg_id[j2] = hid[i]', '                elg_mass[j2] = hmass[i]\n                elg_id[j2] = hid[j2]'),
    ('c09-velocity-bias-sign', 'C09', 'abacusnbody/hod/GRAND_HOD.py', 'lrg_vz[j1] = hvel[i, 2] + alpha_s_L * (\n                    pvel[i, 2] - hvel[i, 2]\n                )', 'lrg_vz[j1] = hvel[i, 2] + alpha_s_L * (\n                    hvel[i, 2] - pvel[i, 2]\n                )'),
    ('c09-rsd-no-wrap', 'C09', 'abacusnbody/hod/GRAND_HOD.py', 'qso_z[j3] = wrap(pos[i, 2] + qso_vz[j3] * inv_velz2kms, lbox)', 'qso_z[j3] = pos[i, 2] + qso_vz[j3] * inv_velz2kms'),
    ('c09-wrap-half-open', 'C09', 'abacusnbody/hod/GRAND_HOD.py', '    if x >= L2:\n        return x - L', '    if x > L2 + 1.0:\n        return x - L'),
    ('c09-conformity-swapped', 'C09', 'abacusnbody/hod/GRAND_HOD.py', '                if keep_cent[i] == 1:\n                    M1_E_temp = 10 ** (logM1_EL', '                if keep_cent[i] == 2:\n                    M1_E_temp = 10 ** (logM1_EL', 1),
    ('c09-sat-weight-dropped', 'C09', 'abacusnbody/hod/GRAND_HOD.py', '                        hmass[i], 10**logM_cut_Q_temp, kappa_Q, M1_Q_temp, alpha_Q\n                    )\n                    * weights[i]', '                        hmass[i], 10**logM_cut_Q_temp, kappa_Q, M1_Q_temp, alpha_Q\n                    )'),
    ('c09-lightcone-projection', 'C09', 'abacusnbody/hod/GRAND_HOD.py', '                    elg_y[j2] = elg_y[j2] + proj * ny\n                    elg_z[j2] = elg_z[j2] + proj * nz\n                elif rsd:\n                    elg_z[j2] = wrap(pos[i, 2]', '                    elg_y[j2] = elg_y[j2] + proj * nx\n                    elg_z[j2] = elg_z[j2] + proj * nz\n                elif rsd:\n                    elg_z[j2] = wrap(pos[i, 2]'),
    ('c09-sats-before-cents', 'C09', 'abacusnbody/hod/GRAND_HOD.py', "                HOD_dict_cent[tracer][k], HOD_dict_sat[tracer][k], Nthread", "                HOD_dict_sat[tracer][k], HOD_dict_cent[tracer][k], Nthread"),
    # ---- C10
    ('c10-fill-offset-shared', 'C10', 'abacusnbody/hod/GRAND_HOD.py', '        j1, j2, j3 = gstart[tid]\n        for i in range(hstart[tid], hstart[tid + 1]):\n            if keep[i] == 1:\n                # loop thru', '        j1, j2, j3 = gstart[0]\n        for i in range(hstart[tid], hstart[tid + 1]):\n            if keep[i] == 1:\n                # loop thru'),
    ('c10-count-wrong-tracer', 'C10', 'abacusnbody/hod/GRAND_HOD.py', '            elif randoms[i] <= ELG_marker:\n                Nout[tid, 1, 0] += 1  # counting\n                keep[i] = 2\n            elif randoms[i] <= QSO_marker:\n                Nout[tid, 2, 0] += 1  # counting\n                keep[i] = 3\n            else:\n                keep[i] = 0\n\n    # compose galaxy array, first create array of galaxy starting indices for the threads\n    gstart = np.empty((Nthread + 1, 3), dtype=np.int64)\n    gstart[0, :] = 0\n    gstart[1:, 0] = Nout[:, 0, 0].cumsum()\n    gstart[1:, 1] = Nout[:, 1, 0].cumsum()\n    gstart[1:, 2] = Nout[:, 2, 0].cumsum()\n\n    # galaxy arrays\n    N_lrg = gstart[-1, 0]\n    lrg_x = np.empty(N_lrg, dtype=hmass.dtype)',
     '            elif randoms[i] <= ELG_marker:\n                Nout[tid, 1, 0] += 1  # counting\n                keep[i] = 2\n            elif randoms[i] <= QSO_marker:\n                Nout[tid, 1, 0] += 1  # counting\n                keep[i] = 3\n            else:\n                keep[i] = 0\n\n    # compose galaxy array, first create array of galaxy starting indices for the threads\n    gstart = np.empty((Nthread + 1, 3), dtype=np.int64)\n    gstart[0, :] = 0\n    gstart[1:, 0] = Nout[:, 0, 0].cumsum()\n    gstart[1:, 1] = Nout[:, 1, 0].cumsum()\n    gstart[1:, 2] = Nout[:, 2, 0].cumsum()\n\n    # galaxy arrays\n    N_lrg = gstart[-1, 0]\n    lrg_x = np.empty(N_lrg, dtype=hmass.dtype)'),
    ('c10-concat-drops-row', 'C10', 'abacusnbody/hod/GRAND_HOD.py', 'for i in range(hstart2[tid - Nthread1], hstart2[tid + 1 - Nthread1]):', 'for i in range(hstart2[tid - Nthread1] + (tid > Nthread1), hstart2[tid + 1 - Nthread1]):'),
    ('c10-concat-thread-split', 'C10', 'abacusnbody/hod/GRAND_HOD.py', 'Nthread1 = max(1, int(np.floor(Nthread * N1 / (N1 + N2))))', 'Nthread1 = max(1, int(np.ceil(Nthread * N1 / (N1 + N2))))'),
    ('c10-second-pass-blocks', 'C10', 'abacusnbody/hod/GRAND_HOD.py', '    for tid in numba.prange(Nthread):\n        j1, j2, j3 = gstart[tid]\n        for i in range(hstart[tid], hstart[tid + 1]):\n            if keep[i] == 1:\n                lrg_x[j1] = ppos[i, 0]', '    hstart = np.floor(np.linspace(0, H, Nthread + 1)).astype(np.int64)\n    for tid in numba.prange(Nthread):\n        j1, j2, j3 = gstart[tid]\n        for i in range(hstart[tid], hstart[tid + 1]):\n            if keep[i] == 1:\n                lrg_x[j1] = ppos[i, 0]'),
    ('c10-shared-counter', 'C10', 'abacusnbody/hod/GRAND_HOD.py', '            if randoms[i] <= LRG_marker:\n                Nout[tid, 0, 0] += 1  # counting\n                keep[i] = 1\n            elif randoms[i] <= ELG_marker:\n                Nout[tid, 1, 0] += 1  # counting\n                keep[i] = 2\n            elif randoms[i] <= QSO_marker:\n                Nout[tid, 2, 0] += 1  # counting\n                keep[i] = 3\n            else:\n                keep[i] = 0\n\n    # compose galaxy array, first create array of galaxy starting indices for the threads\n    gstart = np.empty((Nthread + 1, 3), dtype=np.int64)\n    gstart[0, :] = 0\n    gstart[1:, 0] = Nout[:, 0, 0].cumsum()\n    gstart[1:, 1] = Nout[:, 1, 0].cumsum()\n    gstart[1:, 2] = Nout[:, 2, 0].cumsum()\n\n    # galaxy arrays\n    N_lrg = gstart[-1, 0]\n    lrg_x = np.empty(N_lrg, dtype=mass.dtype)',
     '            if randoms[i] <= LRG_marker:\n                Nout[0, 0, 0] += 1  # counting\n                keep[i] = 1\n            elif randoms[i] <= ELG_marker:\n                Nout[tid, 1, 0] += 1  # counting\n                keep[i] = 2\n            elif randoms[i] <= QSO_marker:\n                Nout[tid, 2, 0] += 1  # counting\n                keep[i] = 3\n            else:\n                keep[i] = 0\n\n    # compose galaxy array, first create array of galaxy starting indices for the threads\n    gstart = np.empty((Nthread + 1, 3), dtype=np.int64)\n    gstart[0, :] = 0\n    gstart[1:, 0] = Nout[:, 0, 0].cumsum()\n    gstart[1:, 1] = Nout[:, 1, 0].cumsum()\n    gstart[1:, 2] = Nout[:, 2, 0].cumsum()\n\n    # galaxy arrays\n    N_lrg = gstart[-1, 0]\n    lrg_x = np.empty(N_lrg, dtype=mass.dtype)'),
    ('c10-searchsorted-shared', 'C10', 'abacusnbody/hod/abacus_hod.py', '        res[i] = np.searchsorted(a, b[i])', '        res[i // 2 * 2] = np.searchsorted(a, b[i])'),
    # ---- C01
    ('c01-b-offset-restarts', 'C01', 'abacusnbody/data/compaso_halo_catalog.py', '                final=True,\n                offset=offset,\n', '                final=True,\n'),
    ('c01-cleaned-away-kept', 'C01', 'abacusnbody/data/compaso_halo_catalog.py', "                self.halos[f'npout{AB}'][cleaned_mask] = 0\n", ''),
    ('c01-merged-not-counted', 'C01', 'abacusnbody/data/compaso_halo_catalog.py', "                npoutAB = npoutAB + self.halos[f'npout{AB}_merge']", "                npoutAB = npoutAB + 0 * self.halos[f'npout{AB}_merge']"),
    ('c01-merge-write-offset', 'C01', 'abacusnbody/data/compaso_halo_catalog.py', '                # fast-forward the write index\n                woff = slab_read_lens[i]\n\n                if pos is not None:', '                # fast-forward the write index\n                woff = 0\n\n                if pos is not None:'),
    ('c01-unsorted-listing', 'C01', 'abacusnbody/data/compaso_halo_catalog.py', 'halo_fns = sorted(groupdir.glob(globpat))', 'halo_fns = list(groupdir.glob(globpat))'),
    ('c01-clean-file-always-A', 'C01', 'abacusnbody/data/compaso_halo_catalog.py', "                            f'{colname}_{AB}'\n", "                            f'{colname}_A'\n"),
    ('c01-file-offsets-no-initial', 'C01', 'abacusnbody/data/compaso_halo_catalog.py', '        util.cumsum(N_halo_per_file, halo_file_offsets, initial=True, final=True)', '        halo_file_offsets[0] = 0\n        util.cumsum(N_halo_per_file[:-1], halo_file_offsets[1:-1], initial=False, final=True) if len(N_halo_per_file) > 1 else None\n        halo_file_offsets[-1] = N_halo_per_file.sum() - (1 if len(N_halo_per_file) > 2 else 0)'),
    ('c01-pid-read-offset', 'C01', 'abacusnbody/data/compaso_halo_catalog.py', '            halo_packedpid = slab_packedpid[\n                slab_read_offsets[i] : slab_read_offsets[i] + slab_read_lens[i]\n            ]', '            halo_packedpid = slab_packedpid[\n                slab_write_offsets[i] - slab_write_offsets[0] : slab_write_offsets[i] - slab_write_offsets[0] + slab_read_lens[i]\n            ]'),
    ('c01-slab-index-parse', 'C01', 'abacusnbody/data/compaso_halo_catalog.py', "[int(hfn.stem.split('_')[-1]) for hfn in halo_fns]", "[int(hfn.stem.split('_')[-1]) % 10 for hfn in halo_fns]"),
    ('c01-npout-diff-dtype', 'C01', 'abacusnbody/data/compaso_halo_catalog.py', 'npstartAB_new[AB][:-1], name=f', 'npstartAB_new[AB][1:], name=f'),
    # ---- C16
    ('c16-rvint-large-even-count', 'C16', 'abacusnbody/data/bitpacked.py', '    for i in range(N):\n        if posout is not None:', '    for i in range(N if N < 8192 else N - N % 2):\n        if posout is not None:'),
    ('c16-pid-block-tail', 'C16', 'abacusnbody/data/bitpacked.py', '    for i in range(N):\n        if lagr_idx is not None:', '    for i in range(N if N % 4096 != 1 else N - 1):\n        if lagr_idx is not None:'),
    ('c16-no-truncation', 'C16', 'abacusnbody/data/read_abacus.py', '    table = table[:nread]  # truncate to amount actually read\n', ''),
    ('c16-default-pid-adds-pos', 'C16', 'abacusnbody/data/read_abacus.py', "        if 'pid' in colname:\n            load += ['pid']", "        if 'pid' in colname:\n            load += ['pid', 'tagged']"),
    ('c16-nread-min', 'C16', 'abacusnbody/data/read_abacus.py', "                velout=_velout,\n            )\n            nread = max(npos, nvel)\n        elif 'pid' in colname:", "                velout=_velout,\n            )\n            nread = min(npos, nvel)\n        elif 'pid' in colname:"),
    ('c16-ambiguity-unchecked', 'C16', 'abacusnbody/data/read_abacus.py', "                    if colname is not None:\n                        raise ValueError(", "                    if False:\n                        raise ValueError("),
    ('c16-pack9-write-index', 'C16', 'abacusnbody/data/pack9.py', '                velout[w, 0] = sh[3] * vscale', '                velout[i, 0] = sh[3] * vscale'),
    ('c16-deprecated-flags', 'C16', 'abacusnbody/data/read_abacus.py', "            if load_vel or (load_vel is None and load_pos is False):", "            if load_vel or (load_vel is None):"),
    ('c16-meta-dropped', 'C16', 'abacusnbody/data/read_abacus.py', "        table = Table(meta=header)", "        table = Table(meta={k: v for k, v in header.items() if k != 'ppd'})"),
    ('c16-pid-kwargs', 'C16', 'abacusnbody/data/read_abacus.py', "for k in ('pid', 'lagr_pos', 'tagged', 'density', 'lagr_idx')\n            }", "for k in ('pid', 'lagr_pos', 'tagged', 'density')\n            }"),
    # ---- C20
    ('c20-repeated-field-once', 'C20', 'abacusnbody/data/pipe_asdf.py', '    for field in fields:\n        N = np.int64(0)', '    for field in dict.fromkeys(fields):\n        N = np.int64(0)'),
    ('c20-late-field-validation', 'C20', 'abacusnbody/data/pipe_asdf.py', "    for af in afs:\n        for field in fields:\n            if field not in af.tree[data_key]:\n                raise ValueError(f'Field \"{field}\" not found in \"{af.uri}\"')\n", ''),
    ('c20-late-file-validation', 'C20', 'abacusnbody/data/pipe_asdf.py', "    for fn in asdf_fns:\n        if not isfile(fn):\n            raise FileNotFoundError(fn)\n    afs = []\n    for fn in asdf_fns:\n        afs += [asdf.open(fn, mode='r', memmap=False, lazy_load=True)]\n", "    afs = []\n    for fn in asdf_fns:\n        if isfile(fn):\n            afs += [asdf.open(fn, mode='r', memmap=False, lazy_load=True)]\n"),
    ('c20-header-order', 'C20', 'abacusnbody/data/pipe_asdf.py', '        pipe.write(N)\n        pipe.write(field_width)', '        pipe.write(field_width)\n        pipe.write(N)'),
    ('c20-count-last-file', 'C20', 'abacusnbody/data/pipe_asdf.py', '            N += _N\n', '            N = np.int64(_N)\n'),
    ('c20-count-rows', 'C20', 'abacusnbody/data/pipe_asdf.py', '_N = np.prod(af[data_key][field].shape)', '_N = af[data_key][field].shape[0]'),
    ('c20-width-int64', 'C20', 'abacusnbody/data/pipe_asdf.py', 'field_width = np.int32(af[data_key][field].dtype.itemsize)', 'field_width = np.int64(af[data_key][field].dtype.itemsize)'),
    ('c20-file-order-reversed', 'C20', 'abacusnbody/data/pipe_asdf.py', '        for af in afs:\n            read_start_time = timer()', '        for af in afs[::-1]:\n            read_start_time = timer()'),
    # ---- C12
    ('c12-randoms-not-permuted', 'C12', 'abacusnbody/hod/abacus_hod.py', '            hrandoms = hrandoms[sortind]\n', ''),
    ('c12-rvir-not-permuted', 'C12', 'abacusnbody/hod/abacus_hod.py', '            hrvir = hrvir[sortind]\n', ''),
    ('c12-shear-not-permuted', 'C12', 'abacusnbody/hod/abacus_hod.py', '            if self.want_shear:\n                hshear = hshear[sortind]\n', ''),
    ('c12-ticker-off', 'C12', 'abacusnbody/hod/abacus_hod.py', '            hc[halo_ticker : halo_ticker + Nhalos[eslab - start]] = halo_c', '            hc[halo_ticker : halo_ticker + Nhalos[eslab - start]] = halo_c[::-1]'),
    ('c12-pinds-unsorted-search', 'C12', 'abacusnbody/hod/abacus_hod.py', '        pinds = _searchsorted_parallel(hid, phid)', '        pinds = _searchsorted_parallel(hid, phid + 1)'),
    ('c12-no-sort', 'C12', 'abacusnbody/hod/abacus_hod.py', '        if not np.all(hid[:-1] <= hid[1:]):', '        if False and not np.all(hid[:-1] <= hid[1:]):'),
    ('c12-particle-field-swap', 'C12', 'abacusnbody/hod/abacus_hod.py', "                part_deltac = subsample['halo_deltac']\n                    part_fenv = subsample['halo_fenv']", "                part_deltac = subsample['halo_fenv']\n                    part_fenv = subsample['halo_deltac']"),
    # ---- C19
    ('c19-empty-guard-removed', 'C19', 'abacusnbody/util.py', '    if N == 0:\n', '    if N == -1:\n'),
    ('c19-final-index', 'C19', 'abacusnbody/util.py', '    total += arr[-1]\n    if final:\n        out[-1] = total', '    total += arr[-1]\n    if final:\n        out[N - 1 + int(initial)] = total\n        out[N_out] = total'),
    ('c19-initial-shift', 'C19', 'abacusnbody/util.py', '        out[i + int(initial)] = total', '        out[i + 1] = total'),
    ('c19-length-check-loose', 'C19', 'abacusnbody/util.py', '    if len(out) != N_out:', '    if len(out) < N_out:'),
    ('c19-offset-dropped', 'C19', 'abacusnbody/util.py', '    total = dtype(offset)', '    total = dtype(0)'),
    ('c19-loop-bound', 'C19', 'abacusnbody/util.py', '    for i in range(N - 1):', '    for i in range(N):'),
    # ---- C11
    ('c11-kppi-search-before-range', 'C11', 'abacusnbody/analysis/power_spectrum.py',
     '                if kz2 >= piedges2[-1]:\n                    break\n\n                while kz2 > piedges2[bpi + 1]:\n                    bpi += 1\n',
     '                while kz2 > piedges2[bpi + 1]:\n                    bpi += 1\n\n                if kz2 >= piedges2[-1]:\n                    break\n'),
    ('c11-rightwrap-single', 'C11', 'abacusnbody/analysis/tsc.py', '    while x >= L:\n        x -= L', '    if x >= L:\n        x -= L'),
    ('c11-cumsum-empty', 'C11', 'abacusnbody/util.py', '    if N == 0:\n', '    if N == -1:\n'),
    ('c11-pack9-short-buffer', 'C11', 'abacusnbody/data/pack9.py', 'sh = np.empty(6, dtype=np.int16)', 'sh = np.empty(5, dtype=np.int16)'),
    ('c11-rvint-loop-bound', 'C11', 'abacusnbody/data/bitpacked.py', '    vmask = np.uint32(0xFFF)\n\n    for i in range(N):', '    vmask = np.uint32(0xFFF)\n\n    for i in range(N + 1):'),
    ('c11-zipper-merge-offset', 'C11', 'abacusnbody/data/compaso_halo_catalog.py', '                # fast-forward the write index\n                woff = slab_read_lens[i]\n\n                if pos is not None:', '                # fast-forward the write index\n                woff = slab_read_lens[i] + 1\n\n                if pos is not None:'),
    # (the older "xd > x[-1]" change is harmless since the last cell index is clamped)
    ('c11-interp-last-cell-unclamped', 'C11', 'abacusnbody/analysis/power_spectrum.py', '    fl = min(np.int64(f), len(x) - 2)', '    fl = np.int64(f)'),
    ('c11-interp-clamp-one-too-far', 'C11', 'abacusnbody/analysis/power_spectrum.py', '    fl = min(np.int64(f), len(x) - 2)', '    fl = min(np.int64(f), len(x) - 1)'),
    ('c11-concat-shift', 'C11', 'abacusnbody/hod/GRAND_HOD.py', '                final_array[i] = array2[i - N1]', '                final_array[i + 1] = array2[i - N1]'),
    ('c11-cic-rightwrap', 'C11', 'abacusnbody/analysis/cic.py', '        ixp1 = rightwrap(ix + 1, gx)', '        ixp1 = ix + 1'),
    ('c11-pids-extra-row', 'C11', 'abacusnbody/data/bitpacked.py', '    half = float_dtype(box / 2)\n\n    for i in range(N):', '    half = float_dtype(box / 2)\n\n    for i in range(N + (N > 0)):'),
    ('c11-smoothing-kz', 'C11', 'abacusnbody/analysis/power_spectrum.py', '            for k in range(kzlen):\n                kmag2 = dtype(i2 + j2 + k**2)\n                Sk[i, j, k] = np.exp', '            for k in range(kzlen + 1):\n                kmag2 = dtype(i2 + j2 + k**2)\n                Sk[i, j, k] = np.exp'),
    # ---- C17
    ('c17-shared-histogram', 'C17', 'abacusnbody/analysis/tsc.py',
     'counts[t, keys[i]] += 1', 'counts[0, keys[i]] += 1'),
    ('c17-weights-misaligned', 'C17', 'abacusnbody/analysis/tsc.py',
     'wsort[s] = weights[i]', 'wsort[i] = weights[i]'),
    ('c17-no-clamp', 'C17', 'abacusnbody/analysis/tsc.py',
     'keys[i] = min(np.int32(pos[i, coord] * inv_pwidth), npartition - 1)',
     'keys[i] = np.int32(pos[i, coord] * inv_pwidth)'),
    ('c17-sort-drops-weights', 'C17', 'abacusnbody/analysis/tsc.py',
     '                weightspart[:] = weightspart[iord]\n', ''),
    ('c17-tstart-rounding', 'C17', 'abacusnbody/analysis/tsc.py',
     'tstart = np.linspace(0, len(pos), nthread + 1).astype(np.int64)',
     'tstart = (np.arange(nthread + 1) * (len(pos) // nthread)).astype(np.int64)'),
]


def scratch_copy():
    d = tempfile.mkdtemp(prefix='verif-mut-', dir=os.environ.get('TMPDIR', '/tmp'))
    shutil.copytree(os.path.join('/repo', 'abacusnbody'), os.path.join(d, 'abacusnbody'),
                    ignore=shutil.ignore_patterns('__pycache__'))
    return d


def run_mutation(m, seconds=None):
    name, pid, rel, old, new = m[:5]
    occurrence = m[5] if len(m) > 5 else 0
    d = scratch_copy()
    try:
        p = os.path.join(d, rel)
        with open(p) as fh:
            src = fh.read()
        olds, news = ([old], [new]) if isinstance(old, str) else (list(old), list(new))
        for o, nw in zip(olds, news):
            if src.count(o) < 1:
                return name, pid, 'STALE (pattern not found)', 0.0
            parts = src.split(o)
            k = min(occurrence, len(parts) - 2)
            src = o.join(parts[:k + 1]) + nw + o.join(parts[k + 1:])
        with open(p, 'w') as fh:
            fh.write(src)
        env = dict(os.environ, VERIF_REPO=d, VERIF_EVIDENCE_DIR=os.path.join(d, 'evidence'))
        t0 = time.time()
        cmd = [os.path.join(VERIF, 'bin', 'check'), pid, '--tier', 'quick']
        if seconds:
            cmd += ['--seconds', str(seconds)]
        r = subprocess.run(cmd, env=env, capture_output=True, text=True, timeout=3600)
        dt = time.time() - t0
        if r.returncode == 1 and 'VIOLATION property=' in r.stdout:
            sigs = [l for l in r.stdout.splitlines() if l.startswith('violation ')]
            return name, pid, 'DETECTED ' + '; '.join(s[10:60] for s in sigs[:2]), dt
        return name, pid, 'MISSED (exit %d) %s' % (r.returncode, r.stdout[-300:].replace('\n', ' | ')), dt
    finally:
        shutil.rmtree(d, ignore_errors=True)


def sensitivity(args):
    only = os.environ.get('VERIF_MUT', '')
    muts = [m for m in all_mutations() if not only or only in m[0] or only == m[1]]
    bad = 0
    for m in muts:
        name, pid, res, dt = run_mutation(m)
        print('%-28s %-4s %6.1fs  %s' % (name, pid, dt, res), flush=True)
        if not res.startswith('DETECTED'):
            bad += 1
    print('sensitivity: %d/%d mutations detected' % (len(muts) - bad, len(muts)))
    return 0 if bad == 0 else 2


def all_mutations():
    muts = list(MUTATIONS)
    p = os.path.join(VERIF, 'simcore', 'mutations.json')
    if os.path.exists(p):
        with open(p) as fh:
            muts += [tuple(x) for x in json.load(fh)]
    return muts


def determinism(args):
    """Run each property's quick generator for a few seeds in several fresh
    interpreter configurations and compare the per-case digests."""
    props = os.environ.get('VERIF_PROPS')
    with open(os.path.join(VERIF, 'MANIFEST.json')) as fh:
        man = json.load(fh)
    pids = props.split(',') if props else [c['property_id'] for c in man['checks']]
    n = int(os.environ.get('VERIF_DET_RUNS', '24'))
    configs = [('0', 1), ('12345', 16), ('0', 5)]
    bad = 0
    for pid in pids:
        results = []
        for hs, w in configs:
            env = dict(os.environ, PYTHONHASHSEED=hs)
            code = ('import sys, json; sys.path.insert(0, %r)\n'
                    'from simcore import selftest\n'
                    'print("DIGESTS " + json.dumps(selftest._digests(%r, %d, %d)))\n') % (VERIF, pid, n, w)
            r = subprocess.run(['/venv/bin/python', '-c', code], env=env, capture_output=True, text=True,
                               timeout=3600)
            line = [l for l in r.stdout.splitlines() if l.startswith('DIGESTS ')]
            if not line:
                print('%s: harness failure in determinism run: %s' % (pid, r.stderr[-500:]))
                bad += 1
                results.append(None)
                continue
            results.append(json.loads(line[0][8:]))
        ok = all(r == results[0] for r in results) and results[0] is not None
        print('%s: %d cases x %d configurations (hashseed, workers)=%s -> %s' % (
            pid, n, len(configs), configs, 'identical' if ok else 'DIVERGED'))
        if not ok:
            bad += 1
            for i in range(n):
                col = [r[i] if r else None for r in results]
                if len(set(col)) > 1:
                    print('   case %d: %s' % (i, col))
    return 0 if bad == 0 else 2


def _digests(pid, n, workers):
    import concurrent.futures as cf
    import multiprocessing as mp
    from . import core
    boot.setup()
    env = {k: os.environ[k] for k in ('VERIF_REPO', 'PYTHONHASHSEED') if k in os.environ}
    ctx = mp.get_context('forkserver')
    out = [None] * n
    with cf.ProcessPoolExecutor(max_workers=workers, mp_context=ctx, initializer=core._winit,
                                initargs=(pid, env)) as ex:
        futs = [ex.submit(core._wrun, (i, 'seed', core.derive_seed(977, pid, 'quick', i), 'quick')) for i in range(n)]
        for f in futs:
            i, kind, case, o = f.result()
            out[i] = o['digest'] if not o['harness'] else 'HARNESS:' + o['harness'][:80]
    core.kill_all_pools()
    return out
