"""Source of truth for MANIFEST.json (bin/mkmanifest writes the file)."""

PENDING = 'check not built yet in this session (work in progress; see DESIGN.md section 4)'

ENGINES = [
    {'name': 'E1-threads', 'path': 'e1_threads/', 'serves_properties': ['C06', 'C07', 'C08', 'C09', 'C10', 'C11', 'C13', 'C17'],
     'kind_free_text': 'deterministic seeded scheduler for numba prange regions: kernels re-compiled from the working '
                       'tree into cooperative generators, tracked arrays, conflict detection, directed lost-update schedules'},
    {'name': 'E2-world', 'path': 'e2_world/', 'serves_properties': ['C01', 'C02', 'C03', 'C05', 'C12', 'C14', 'C16', 'C20'],
     'kind_free_text': 'simulated storage world: seeded ground-truth model written by a stub writer, read back by the '
                       "repository's loaders under shuffled listings, chunk sizes, junk files, poisoned allocator"},
    {'name': 'E3-arena', 'path': 'e3_arena/', 'serves_properties': ['C11', 'C19'],
     'kind_free_text': 'compiled kernels on a poisoned arena with canary guard zones (two poisons) and NUMBA_BOUNDSCHECK children'},
]

NOTES = ('Technique family: deterministic simulation with fault injection.  One entry point: bin/check <ID> --tier '
         'quick|thorough, bin/check <ID> --replay <file>, bin/check selftest-determinism, bin/check selftest-sensitivity. '
         'Exit 0 held / 1 VIOLATION / 2 harness error.')

CHECKS = {
    'C14': {
        'engine': 'E2-world',
        'technique': 'deterministic simulation of the I/O layer: seeded fragmentation of the compressed stream '
                     '(cuts inside length prefixes and frames, empty and 1-byte chunks) with a byte-exact oracle',
        'text': 'seeded search over chunking histories of the compressed stream fed through the existing '
                'decompress(blocks, out) iterator seam and end-to-end through asdf with io_block_size varied; the '
                'oracle is byte equality with the payload plus an independent reader of the documented framing. '
                'Sampling, not proof: cut positions are biased to every boundary class of the state machine.',
        'design_ref': 'DESIGN.md 4 (C14), 2.3',
        'note': 'the blosc C codec is an in-process stub (frames must be byte-exact or it raises); the frame writer and the '
                'reassembly state machine are the repository code; asdf is real',
    },
}

NOT_APPLICABLE = {
    'C04': 'pure function of the input bits (shifts, masks, scales): no schedule, clock, I/O, allocation or fault '
           'influences the result; the quantifier (all 2^32 words / all field values) calls for enumeration or a '
           'bit-vector proof, not seeded schedule search',
    'C15': 'pure function of an in-memory byte array; the header state lives inside one serial loop, so there is '
           'no chunking, interleaving or fault for a simulator to vary',
    'C18': 'pure function on a finite domain of 65340 codes: complete enumeration, which is not simulation',
}
for _p in ('C01', 'C02', 'C03', 'C05', 'C06', 'C07', 'C08', 'C09', 'C10', 'C11', 'C12', 'C13', 'C16', 'C17', 'C19', 'C20'):
    NOT_APPLICABLE.setdefault(_p, PENDING)
