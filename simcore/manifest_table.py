"""Source of truth for MANIFEST.json (bin/mkmanifest writes the file)."""

PENDING = 'check not built yet in this session (work in progress; see DESIGN.md section 4)'

ENGINES = [
    {'name': 'E1-threads', 'path': 'e1_threads/', 'serves_properties': ['C06', 'C07', 'C08', 'C09', 'C10', 'C11', 'C13', 'C17'],
     'kind_free_text': 'deterministic seeded scheduler for numba prange regions: kernels re-compiled from the working '
                       'tree into cooperative generators, tracked arrays, conflict detection, directed lost-update schedules'},
    {'name': 'E2-world', 'path': 'e2_world/', 'serves_properties': ['C01', 'C02', 'C03', 'C05', 'C12', 'C14', 'C16', 'C20'],
     'kind_free_text': 'simulated storage world: seeded ground-truth model written by a stub writer, read back by the '
                       "repository's loaders under shuffled listings, chunk sizes, junk files, poisoned allocator"},
    {'name': 'E3-arena', 'path': 'e3_arena/', 'serves_properties': ['C11', 'C19'],
     'kind_free_text': 'compiled kernels on a poisoned arena with canary guard zones (two poisons) and NUMBA_BOUNDSCHECK children'},
]

NOTES = ('Technique family: deterministic simulation with fault injection.  One entry point: bin/check <ID> --tier '
         'quick|thorough, bin/check <ID> --replay <file>, bin/check selftest-determinism, bin/check selftest-sensitivity. '
         'Exit 0 held / 1 VIOLATION / 2 harness error.')

CHECKS = {
    'C14': {
        'engine': 'E2-world',
        'technique': 'deterministic simulation of the I/O layer: seeded fragmentation of the compressed stream '
                     '(cuts inside length prefixes and frames, empty and 1-byte chunks) with a byte-exact oracle',
        'text': 'seeded search over chunking histories of the compressed stream fed through the existing '
                'decompress(blocks, out) iterator seam and end-to-end through asdf with io_block_size varied; the '
                'oracle is byte equality with the payload plus an independent reader of the documented framing. '
                'Sampling, not proof: cut positions are biased to every boundary class of the state machine.',
        'design_ref': 'DESIGN.md 4 (C14), 2.3',
        'note': 'the blosc C codec is an in-process stub (frames must be byte-exact or it raises); the frame writer and the '
                'reassembly state machine are the repository code; asdf is real',
    },
    'C07': {
        'engine': 'E1-threads',
        'technique': 'deterministic simulation: seeded scheduler over prange tasks of the re-compiled TSC kernels, '
                     'data-race (shared written cell) invariant, directed lost-update schedules, configuration sweep',
        'text': 'the accept/reject decision and the stripe geometry are swept completely for ngrid 1..64 x '
                '(default npartition for nthread 1..16, explicit npartition 1..ngrid) with particles on both sides of '
                'every stripe boundary under static and cyclic iteration assignment; interleavings, grids, offsets and '
                'particle sets beyond that are sampled by seeded search (serial-order, random-walk, PCT schedules). '
                'Conflicts are detected from the access log independent of the sampled interleaving and then '
                'converted into a concrete lost-update schedule.',
        'design_ref': 'DESIGN.md 4 (C07), 2.2',
        'note': 'kernels are executed from the working-tree source as Python generators (same index arithmetic, not the '
                'same machine code); numba pool replaced by the seeded scheduler',
    },
    'C17': {
        'engine': 'E1-threads',
        'technique': 'deterministic simulation: seeded scheduler over the histogram/scatter/sort prange regions, poisoned '
                     'allocator (two patterns), permutation + stripe-membership oracle',
        'text': 'seeded search over particle sets biased to stripe boundaries, duplicates and the value BoxSize, all '
                'thread counts 1..16 (incl. more threads than particles), three iteration-assignment policies and three '
                'scheduler strategies; oracle is an independent float64 stripe computation and multiset equality; '
                'a fifth of the cases also run the compiled kernel on real threads under the same oracle.',
        'design_ref': 'DESIGN.md 4 (C17), 2.2',
        'note': 'interpreted execution of the kernel source; membership tolerance of 4 ulps at stripe boundaries unless '
                'BoxSize/npartition is a power of two',
    },
    'C06': {
        'engine': 'E1-threads',
        'technique': 'deterministic simulation of the threaded TSC deposit under seeded schedules plus single-thread '
                     'compiled runs, against an independent float64 B-spline reference',
        'text': 'every simulated schedule of tsc_parallel and the compiled single-thread tsc_parallel / cic_serial are '
                'compared cell by cell with an independent float64 reference (rounding bound calibrated at 10x the '
                'largest observed error); inputs are sampled with a bias to cell centres, half-cell edges, 0, the '
                'largest float below BoxSize, BoxSize and out-of-range positions under wrap. cic_serial has no seam: '
                'for it the simulator contributes nothing beyond input generation (said in DESIGN.md).',
        'design_ref': 'DESIGN.md 4 (C06)',
        'note': 'reference convention: cell i centred at i*h, periodic; tolerance 6*eps*(n+2)*touching weight per cell',
    },
    'C08': {
        'engine': 'E1-threads',
        'technique': 'deterministic simulation of the per-thread-accumulator binning kernels under seeded schedules, '
                     'against brute-force enumeration of the full mesh',
        'text': 'bin_kmu / bin_kppi run on 1..16 simulated threads under three iteration-assignment policies and three '
                'scheduler strategies; counts must lie in the interval allowed by a brute-force enumeration of all n^3 '
                'modes (edge ties may fall either side), be bitwise equal for every thread count, and the means / '
                'multipoles must match on tie-free bins; data-race invariant on the accumulators; compiled kernels '
                'cross-checked single-threaded. Meshes 1..12, seeded edge families (tie-free and tie-hitting).',
        'design_ref': 'DESIGN.md 4 (C08)',
        'note': 'which modes are counted is an input property decided by enumeration; the simulator decides the '
                'thread-count / schedule independence',
    },
    'C13': {
        'engine': 'E1-threads',
        'technique': 'deterministic simulation of the whole calc_power pipeline on simulated threads (seeded schedules, '
                     'two thread counts per case) with metamorphic oracles',
        'text': 'calc_power (plain Python, as is) drives the simulated kernels with real scipy.fft; per case six runs: '
                'base, permuted, translated by whole cells (particles on a dyadic lattice so the shift is exact), another '
                'thread count, cross=auto, other particles; float columns must agree within 2e-5*max|P| and the '
                'mode-count / bin columns bitwise; data-race invariant on every region. Only the thread-count clause '
                'is a schedule property; the other symmetries are input relations evaluated on the same runs.',
        'design_ref': 'DESIGN.md 4 (C13)',
        'note': 'sampling over meshes 4..16, TSC/CIC, compensated/interlaced, binnings; compiled pipeline cross-checked '
                'single-threaded on a tenth of the cases',
    },
    'C09': {
        'engine': 'E1-threads',
        'technique': 'deterministic simulation of the two-pass threaded HOD kernels under seeded schedules, checked against '
                     'an executable reference model of the threshold rule plus two metamorphic relations',
        'text': 'gen_gal_cat/gen_gals (as is) drive the simulated gen_cent/gen_sats/fast_concatenate; every output row is '
                'matched, in order, against a reference that stacks the package mean-occupation functions LRG->ELG->QSO '
                'with incompleteness and multiplicity/weight, and applies velocity bias, RSD, wrap and the light-cone '
                'projection; randoms are placed on slice edges +-k ulps (within 4 ulps either outcome is accepted); '
                'nestedness in ic and independence of earlier tracers from later ones are checked on extra runs. '
                'The rule is a function of the inputs: the simulator contributes the (Nthread, assignment, interleaving) '
                'under which the offsets that pick the host are computed; the input dimension is plain generation.',
        'design_ref': 'DESIGN.md 4 (C09)',
        'note': 'mean-occupation functions are shared with the reference by definition of the property; NFW satellites '
                '(numba RNG) are out of scope',
    },
    'C10': {
        'engine': 'E1-threads',
        'technique': 'deterministic simulation: seeded scheduler over the count/fill prange passes, bitwise comparison with '
                     'the single-thread run, data-race invariant, two allocator poisons',
        'text': 'for Nthread 1..16 (incl. more threads than hosts, empty tables, sizes not divisible by Nthread) every '
                'column, the row order and Ncent must be bitwise equal to the Nthread=1 run under static/cyclic/dynamic '
                'iteration assignment and serial/random/PCT schedules; no element may be written by two simulated '
                'threads; results must not depend on the poison pattern of np.empty (an unwritten output row). '
                '_searchsorted_parallel is simulated separately against numpy.searchsorted.',
        'design_ref': 'DESIGN.md 4 (C10)',
        'note': 'compiled kernels on real threads are compared only at the thorough tier (minutes of compilation)',
    },
    'C01': {
        'engine': 'E2-world',
        'technique': 'deterministic simulation of storage: seeded world model with uniquely tagged particles written by a '
                     'stub writer, read back by the real loader under seeded environment faults, particle-by-particle oracle',
        'text': 'every particle carries a serial number encoded redundantly in position, velocity and PID, so each loaded '
                'particle is attributed to exactly one written particle; per halo row and subsample the slice must decode '
                'to the model list (originals, none if cleaned away, then merged), slices contiguous in row order with A '
                'before B, table length = sum of counts; repeated under a second allocator poison (bitwise identical) and '
                'with the files byte-identical afterwards. Environment faults: io_block_size 1..4096, blsc framing with '
                'tiny compression blocks, shuffled listings, junk files, path spellings, file lists in any order.',
        'design_ref': 'DESIGN.md 4 (C01), 2.3',
        'note': 'no threads involved: the simulator owns storage and the allocator; worlds <= 4 slabs x 6 halos x 8 particles '
                '(thorough: 6 x 12 x 16), light-cone layout included',
    },
    'C02': {
        'engine': 'E2-world',
        'technique': 'deterministic simulation of storage + poisoned allocator: many loads of one seeded world with varied '
                     'field requests, bitwise comparison per column',
        'text': 'for seeded target columns (all user / cleaning / main-progenitor names) the column is loaded alone, with '
                'seeded co-requested columns in two orders, via all and via the default set, with and without subsamples, '
                'cleaned on/off; no load may raise and the column must be bitwise equal to the fields=all load. The '
                'poisoned np.empty makes a wrong temporary dtype or a read-before-fill repeatable.',
        'design_ref': 'DESIGN.md 4 (C02)',
        'note': 'npstart*/npout* and their _merge companions are exempt when subsamples are loaded (re-indexed / consumed by definition)',
    },
    'C03': {
        'engine': 'E2-world',
        'technique': 'deterministic simulation of storage: seeded file subsets/orders and seeded row masks as filter '
                     'functions, checked against the world model and against single-file / unfiltered loads',
        'text': 'combined load = concatenation of single-file loads (bitwise per column) and = world model rows and particle '
                'serial lists; filtered load = mask applied to the unfiltered load and = model restricted to the kept halos, '
                'incl. keep-nothing, keep-all, empty one slab, filters on N (cleaned: N_total); duplicate and mixed file '
                'lists must be rejected.',
        'design_ref': 'DESIGN.md 4 (C03)',
        'note': 'table truncation via ndarray.resize moving the buffer cannot be forced and is not explored',
    },
    'C05': {
        'engine': 'E2-world',
        'technique': 'simulated storage with independently drawn BoxSize / VelZSpace_to_kms and stored values; documented-'
                     'formula oracle under both unit options (thin use of the simulator, stated)',
        'text': 'every modelled column of a fields=all or subset load is compared with the documented formula applied to '
                'the stored values under convert_units on and off; Min^2+Mid^2+Maj^2 = sigmav3d^2; int16 extremes '
                'generated. The simulator contributes the storage state and the poisoned temporaries only.',
        'design_ref': 'DESIGN.md 4 (C05)',
        'note': 'eigenvector columns are outside the oracle (C18 not claimed); float32 tolerances stated in the evidence',
    },
    'C12': {
        'engine': 'E2-world',
        'technique': 'deterministic simulation of storage: seeded slab files whose every per-halo attribute is an injective '
                     'function of the halo id, ids in seeded orders across slabs, row-by-row oracle after the real constructor',
        'text': 'AbacusHOD(...) is constructed on simulated subsample files (h5 slabs, halo_info directory) with ids '
                'increasing / decreasing / interleaved / random across 1-4 slabs, all option flags, chunking and both file '
                'namings; afterwards ids must be strictly increasing, every per-halo array must equal f_k(hid[row]) and '
                'hid[pinds[p]] must equal the id each particle records; staging buffers come from the poisoned allocator.',
        'design_ref': 'DESIGN.md 4 (C12)',
        'note': 'duplicate-free ids and >= 2 halos per loaded chunk are preconditions; _searchsorted_parallel runs compiled',
    },
    'C16': {
        'engine': 'E2-world',
        'technique': 'deterministic simulation of storage + poisoned allocator: seeded particle files of every kind read by '
                     'read_asdf under several column requests, reference decoders as oracle',
        'text': 'rvint / pack9 (cell headers interleaved, so fewer rows than records) / packedpid / pid files, files with two '
                'or none of the known raw columns, snapshot and light-cone headers; 2-4 requests per file (default, subsets in '
                'seeded order, float32/float64, deprecated flags, explicit colname): exactly the requested columns, one row '
                'per particle in file order, values equal to independent decoders within the format quantum, bitwise equal '
                'across requests, identical under both allocator poisons, header preserved in meta, ambiguity rejected.',
        'design_ref': 'DESIGN.md 4 (C16)',
        'note': 'pack9 reference written from the documented record layout',
    },
    'C20': {
        'engine': 'E2-world',
        'technique': 'deterministic simulation of storage and of the output pipe (recording sink through the pipe= seam) '
                     'with an injected missing file / field; ordering check over the recorded I/O history',
        'text': 'the recorded byte stream is parsed by an independent reader of the documented wire format and compared, per '
                'field in request order, with (count, width, concatenation over files in argument order); under the fault '
                'an exception must be raised and the history must contain no write event.',
        'design_ref': 'DESIGN.md 4 (C20)',
        'note': '1-4 files x 1-5 columns, 1-D and multi-dimensional, item widths 1..16, empty columns, compression on/off',
    },
    'C11': {
        'engine': 'E3-arena',
        'technique': 'fault injection into memory adjacent to arrays: compiled kernels on a poisoned arena with canary '
                     'guard zones under two fills, NUMBA_BOUNDSCHECK child, and bounds-checked simulated execution of the '
                     'parallel kernels',
        'text': 'an out-of-bounds read returns heap contents, so the heap next to every array is made adversarial and the '
                'run repeated with a second fill: changed canaries (write) or outputs that differ between fills (read) are '
                'violations; serial kernels are also run under numba bounds checking; parallel kernels (whose internal '
                'accumulators the arena cannot reach) run from the same source on bounds-checked tracked arrays under '
                'seeded schedules. Inputs are sampled within each kernel documented preconditions, biased to the listed '
                'boundary classes.',
        'design_ref': 'DESIGN.md 4 (C11), Appendix A',
        'note': 'NFW kernels (numba RNG) not executed; compiled HOD kernels only through the simulated path at the quick tier',
    },
    'C19': {
        'engine': 'E3-arena',
        'technique': 'complete enumeration of small lengths x flags x dtype pairings of util.cumsum on a poisoned arena with '
                     'canaries (two fills) and under NUMBA_BOUNDSCHECK; seeded lengths up to 10^4',
        'text': 'the value clause is a pure function and is enumerated completely for lengths 0..8 (reported as such) and '
                'sampled beyond; the clause "nothing outside the output array is read or written" is decided by the arena: '
                'canary zones around input and output, and equality of outputs under two fills.',
        'design_ref': 'DESIGN.md 4 (C19)',
        'note': 'an empty Python list cannot be typed by numba (loud rejection) and is outside the sweep',
    },
}

NOT_APPLICABLE = {
    'C04': 'pure function of the input bits (shifts, masks, scales): no schedule, clock, I/O, allocation or fault '
           'influences the result; the quantifier (all 2^32 words / all field values) calls for enumeration or a '
           'bit-vector proof, not seeded schedule search',
    'C15': 'pure function of an in-memory byte array; the header state lives inside one serial loop, so there is '
           'no chunking, interleaving or fault for a simulator to vary',
    'C18': 'pure function on a finite domain of 65340 codes: complete enumeration, which is not simulation',
}
for _p in ():
    NOT_APPLICABLE.setdefault(_p, PENDING)


# What the build rounds added on top of the first version of each check (appended to level_claimed.text).
ADDED = {
    'C01': 'Later additions: catalogues of 4096..8192 halo rows (2% of the cases), explicit cleaned-catalogue directory, '
           'subsample dictionaries in any key order, 64-bit halo ids beyond 2^53 / 2^63, a prior load of another catalogue '
           'in the same process, Python-level thread pools in the loader run by the seeded task scheduler (instr/simpool).',
    'C02': 'Later additions: a prior load of another catalogue in the same process with the fields=all table compared to '
           'the same load in a fresh interpreter; Python-level thread pools in the loader run in a seeded task order.',
    'C03': 'Later additions: large catalogues, filters on light-cone catalogues, subsample dictionary key order, 64-bit ids.',
    'C05': 'Later additions: (ratio, reference) request pairs in seeded order, integer-typed header values, 64-bit integer '
           'columns beyond 2^53 compared as integers with their dtype, prior load of another catalogue.',
    'C06': 'Later additions: negative sub-cell offsets, a complete sweep over boundary-coordinate products (120 '
           'configurations x 343..729 particles), the same arrays painted twice into one grid with the caller arrays required '
           'unchanged (beyond the documented wrap), non-contiguous / Fortran / read-only position and weight arrays, supplied '
           'grids that are padded views or Fortran-ordered with the caller\'s own array required to hold the result, '
           'positions that wrap to exactly BoxSize.',
    'C07': 'Later additions: partition axes 1 and 2, exact half-cell ties after the offset with value-preserving shared cells '
           'counted as conflicts, positions one period outside the box (and ones that wrap to exactly BoxSize) under '
           'wrap=True, array memory layouts.',
    'C08': 'Later additions: odd and unsorted multipole sets, a call history with another thread count before, the estimator '
           'calc_pk_from_deltak on the same mesh (must report the binned means x Lbox^3), weights in other memory layouts; '
           'NOT simulation but configuration sweeps of the compiled kernels on real threads: every mesh size 1..128 (256 '
           'thorough) x 1..16 threads against one thread, and meshes 256^3 / 320^3 (400^3) with exactly counted bins.',
    'C09': 'Later additions: optional HOD keys left out, tracer dictionaries in any insertion order, particle tables not in '
           'host order, a two-call history on the same tracer dictionaries / halo and particle arrays with in-place updates '
           'and give-then-omit of optional keys.',
    'C10': 'Later additions: complete (host count 0..130 x Nthread 1..16) sweep, sorted-duplicate host lookups, particle '
           'tables not in host order, tracer insertion order; NOT simulation but a configuration sweep of the compiled '
           'kernels on real threads: 4096*T-1 .. 3*4096*T hosts / particles for T in 2,3,4,8,16 against one thread, bit for bit.',
    'C11': 'Later additions: complete sweeps (arena and bounds-check child) over the interpolation grids, decoder output '
           'subsets, boundary-coordinate products for the three mass-assignment kernels, cumulative sums around 2^16 and '
           '2^20 elements with 1 and 16 numba threads.',
    'C12': 'Later additions: slab files of 1024..8192 halos (4%) and 65536..131072 halos (1%) in decreasing / rotated order, '
           'id bases 2^53+1 / 2^62 and uint64 id dtype in the halo file.',
    'C13': 'Later additions: the same array object as both fields, explicit bin arrays and k_max, orders sorted along an axis, '
           'coordinates on the lower box face, float64 positions; NOT simulation but a configuration sweep of the compiled '
           'estimator on real threads: every nmesh 2..64 (96 thorough) x 1..16 threads against one thread.',
    'C14': 'Later additions: payloads beyond one default 4 MiB block; one or two other streams decompressed at the same time '
           'on the shared compressor instance with the chunk pulls of all streams interleaved by the seeded scheduler (real '
           'threads parked before every chunk, released one at a time); the history read through one reused writable buffer.',
    'C16': 'Later additions: near-integer float ppd, 10^5-record files, empty column requests; NOT simulation but a '
           'configuration sweep of the compiled decoders: every record count 0..20000 (60000 thorough) plus samples up to '
           '300000 x 1,2,3,4,8,16 numba threads against the single-thread decoding of the longest input.  Storage fault '
           'after the reads: the file is overwritten in place and every returned table must keep its values.',
    'C17': 'Later additions: complete (N 0..130 x nthread 1..16) sweep, weight dtype independent of the position dtype, the '
           'same arrays edited in place and partitioned again with identical arguments, array memory layouts.',
    'C19': 'Later additions: lengths 2^k-1, 2^k, 2^k+1 up to 2^20 (2^21 thorough) x flags x 1/3/16 numba threads, strided and '
           'read-only inputs, strided outputs (the slots in between must stay untouched); uint64 outputs whose partial sums '
           'all lie beyond 2^63, compared as integers.',
    'C20': 'Later additions: columns of 4..10 MiB, fields requested twice, big-endian stored columns, the same paths piped '
           'once with other contents before the files are rewritten; an always-run sweep of columns of exactly 2^20..2^25 '
           'bytes (and 24 MiB, 16 MiB multi-dimensional) in one file.',
}
for _k, _v in ADDED.items():
    CHECKS[_k]['text'] = CHECKS[_k]['text'].rstrip() + ' ' + _v
