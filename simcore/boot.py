"""Process bootstrap shared by every check.

* puts /verif, /verif/fakes and /verif/.deps on sys.path (running ensure_deps
  first: a fresh restore has no ignored directories);
* resolves the repository under test from $VERIF_REPO (default /repo) -- the
  working tree is read at run time, nothing is installed or cached;
* registers the repository's asdf extension explicitly (the egg-info entry
  point is git-ignored and absent from scratch copies).
"""
import os
import subprocess
import sys

VERIF = os.path.dirname(os.path.dirname(os.path.abspath(__file__)))
REPO = os.path.abspath(os.environ.get('VERIF_REPO', '/repo'))
GUARD = 'ABACUSUTILS_VERIF'

_done = False


def ensure_deps():
    ok = os.path.join(VERIF, '.deps', '.ok')
    if not os.path.exists(ok):
        subprocess.run([os.path.join(VERIF, 'bin', 'ensure_deps')], check=True)


def setup(threads=None):
    """Idempotent.  Must run before numba / abacusnbody are imported."""
    global _done
    if _done:
        return
    _done = True
    ensure_deps()
    os.environ[GUARD] = '1'
    os.environ.setdefault('NUMBA_NUM_THREADS', '16')
    if threads:
        os.environ['NUMBA_NUM_THREADS'] = str(threads)
    os.environ.setdefault('OMP_NUM_THREADS', '1')
    os.environ.setdefault('OPENBLAS_NUM_THREADS', '1')
    os.environ.setdefault('MKL_NUM_THREADS', '1')
    for p in (os.path.join(VERIF, '.deps'), os.path.join(VERIF, 'fakes'), VERIF):
        if p not in sys.path:
            sys.path.insert(0, p)
    # never pick up a stray installed copy
    for k in [k for k in sys.modules if k == 'abacusnbody' or k.startswith('abacusnbody.')]:
        del sys.modules[k]
    import warnings
    warnings.filterwarnings('ignore')
    from instr import loader
    loader.install(REPO)


_ext_done = False


def register_asdf_extension():
    """Register the working tree's AbacusExtension with asdf and install the
    writer-side shim (asdf>=5 hands `compress` an ndarray where the Compressor
    interface -- and BloscCompressor.compress -- expect a memoryview)."""
    global _ext_done
    if _ext_done:
        return
    _ext_done = True
    import asdf
    import numpy as np
    from abacusnbody.data.asdf import AbacusExtension
    cfg = asdf.get_config()
    have = [e for e in cfg.extensions
            if getattr(e, 'extension_uri', None) == 'asdf://abacusnbody.org/extensions/abacus-0.0.1']
    for e in have:
        try:
            cfg.remove_extension(e)
        except Exception:
            pass
    cfg.add_extension(AbacusExtension())
    import asdf._compression as comp
    if not getattr(comp, '_verif_shim', False):
        orig = comp.compress

        def compress(fd, data, compression, config=None):
            if compression in ('blsc', b'blsc') and isinstance(data, np.ndarray):
                data = memoryview(np.ascontiguousarray(data).reshape(-1))
            return orig(fd, data, compression, config=config)

        comp.compress = compress
        comp._verif_shim = True
