"""Seeds, run loop, process pool, shrinking, replay files, evidence, findings.

A *case* is a JSON-serialisable dict; it contains everything a run needs
(inputs, configuration, knobs, poison, explicit schedule when one was recorded).
``prop.run(case)`` must be a pure function of the case and of the code under
test.  Case ``i`` of a batch is generated from
``sha256(VERIF_SEED, property, tier, i)``, so results do not depend on the
number of workers or on which worker ran what.
"""
import concurrent.futures as cf
import faulthandler
import hashlib
import importlib
import json
import multiprocessing as mp
import os
import random
import subprocess
import sys
import time
import traceback

from . import boot

VERIF = boot.VERIF
EXIT_OK, EXIT_VIOLATION, EXIT_HARNESS = 0, 1, 2


def derive_seed(verif_seed, pid, tier, i):
    h = hashlib.sha256(('%d|%s|%s|%d' % (verif_seed, pid, tier, i)).encode()).digest()
    return int.from_bytes(h[:8], 'big')


def digest_of(obj):
    return hashlib.sha256(json.dumps(obj, sort_keys=True, default=_js).encode()).hexdigest()[:16]


def _js(o):
    import numpy as np
    if isinstance(o, (np.integer,)):
        return int(o)
    if isinstance(o, (np.floating,)):
        return float(o)
    if isinstance(o, np.ndarray):
        return o.tolist()
    if isinstance(o, (set, frozenset)):
        return sorted(o)
    if isinstance(o, bytes):
        return o.hex()
    return repr(o)


def load_prop(pid):
    return importlib.import_module('props.' + pid.lower())


# ------------------------------------------------------------- outcomes ----
def new_outcome():
    return {'violations': [], 'events': [], 'probes': {}, 'faults': {}, 'steps': 0,
            'nontrivial': None, 'harness': None, 'digest': None}


def violation(out, kind, site, detail):
    """kind: short class; site: stable location; signature = kind@site."""
    out['violations'].append({'kind': kind, 'site': site, 'signature': '%s@%s' % (kind, site),
                              'detail': detail})


def finish(out):
    out['digest'] = digest_of({'e': out['events'], 'v': [v['signature'] for v in out['violations']]})
    return out


def bump(d, k, n=1):
    d[k] = d.get(k, 0) + n


# ---------------------------------------------------------------- worker ---
_PROP = None


_INIT_ERROR = None


def _winit(pid, env):
    global _PROP, _INIT_ERROR
    os.environ.update(env)
    faulthandler.enable()
    try:
        boot.setup()
        _PROP = load_prop(pid)
        if hasattr(_PROP, 'warmup'):
            _PROP.warmup()
    except Exception as e:      # reported per job as a harness error, never as a crash of the code under test
        _INIT_ERROR = 'worker initialisation failed: %s: %s\n%s' % (type(e).__name__, e, traceback.format_exc()[-2000:])


def safe_run(prop, case):
    try:
        out = prop.run(case)
        return finish(out)
    except Exception as e:   # a crash of the harness itself, never a VIOLATION
        out = new_outcome()
        out['harness'] = '%s: %s\n%s' % (type(e).__name__, e, traceback.format_exc()[-3000:])
        return finish(out)


_HISTORY = []     # cases executed so far by this worker process, in order


def _wrun(job):
    i, kind, payload, tier = job
    if _INIT_ERROR is not None:
        out = new_outcome()
        out['harness'] = _INIT_ERROR
        return i, kind, None, finish(out)
    faulthandler.dump_traceback_later(getattr(_PROP, 'CASE_TIMEOUT', 300), exit=True)
    try:
        if kind == 'seed':
            rng = random.Random(payload)
            case = _PROP.gen(rng, tier)
            case['seed'] = payload
        else:
            case = payload
        t0 = time.time()
        out = safe_run(_PROP, case)
        out['wall'] = time.time() - t0
        keep_case = bool(out['violations'] or out['harness']) or i < 3 or kind != 'seed'
        if out['violations']:
            # what this process had executed before: needed if the failure turns out to depend on
            # state the code under test leaks from one independent case to the next
            out['history'] = list(_HISTORY[-16:])
        _HISTORY.append(case)
        return i, kind, (case if keep_case else None), out
    finally:
        faulthandler.cancel_dump_traceback_later()


def _wshrink(args):
    """Runs in a *fresh* single-use worker, i.e. without any history: first make sure the case
    fails on its own."""
    case, sig, budget = args
    first = safe_run(_PROP, case)
    if not any(v['signature'] == sig for v in first['violations']):
        return None, 0, None
    small, steps = shrink(_PROP, case, sig, budget_s=budget)
    if hasattr(_PROP, 'pin'):
        # store the interleaving explicitly (run-length encoded thread choices), so that the
        # replay does not depend on the scheduler strategy's code or PRNG
        try:
            pinned = _PROP.pin(small)
            o2 = safe_run(_PROP, pinned)
            if any(v['signature'] == sig for v in o2['violations']):
                small = pinned
        except Exception:
            pass
    out = safe_run(_PROP, small)
    v = next((x for x in out['violations'] if x['signature'] == sig), None)
    return small, steps, v


# ------------------------------------------------------------- findings ----
def load_findings(pid):
    p = os.path.join(VERIF, 'known_findings.json')
    if not os.path.exists(p):
        return []
    with open(p) as fh:
        data = json.load(fh)
    return [f for f in data.get('findings', []) if f.get('property') == pid and f.get('status') == 'open']


def match_finding(findings, v):
    for f in findings:
        if f.get('signature') == v['signature']:
            return f
    return None


# ------------------------------------------------------------- shrinking ---
def shrink(prop, case, signature, budget_s=60, max_steps=400):
    """Greedy delta debugging: keep a candidate while the same violation
    signature persists."""
    if not hasattr(prop, 'shrink'):
        return case, 0
    t0 = time.time()
    steps = 0
    improved = True
    while improved and time.time() - t0 < budget_s and steps < max_steps:
        improved = False
        for cand in prop.shrink(case):
            steps += 1
            if time.time() - t0 > budget_s or steps >= max_steps:
                break
            out = safe_run(prop, cand)
            if any(v['signature'] == signature for v in out['violations']):
                case = cand
                improved = True
                break
    return case, steps


def write_replay(pid, case, v, history=None):
    d = os.environ.get('VERIF_EVIDENCE_DIR') or os.path.join(VERIF, 'replays')
    os.makedirs(d, exist_ok=True)
    name = '%s-%s-%s.json' % (pid, case.get('seed', 0), hashlib.sha256(v['signature'].encode()).hexdigest()[:8])
    p = os.path.join(d, name)
    with open(p, 'w') as fh:
        rec = {'property': pid, 'signature': v['signature'], 'kind': v['kind'], 'site': v['site'],
               'detail': v['detail'], 'case': case}
        if history:
            rec['history_before'] = history
        json.dump(rec, fh, indent=1, sort_keys=True, default=_js)
    return p


def confirm_replay(pid, path):
    """Re-execute the replay file in a fresh interpreter; it must fail the same way."""
    cmd = [os.path.join(VERIF, 'bin', 'check'), pid, '--replay', path, '--quiet']
    try:
        r = subprocess.run(cmd, capture_output=True, text=True, timeout=900)
    except subprocess.TimeoutExpired:
        return 'crash@' in open(path).read(), 'replay timed out'
    if r.returncode < 0 or r.returncode > 2:
        # died with a signal: reproduces a crash; for other signatures the verdict line must be there
        return ('crash@' in open(path).read()) or ('VIOLATION property=' in r.stdout), r.stdout[-2000:]
    return r.returncode == EXIT_VIOLATION, r.stdout[-2000:] + r.stderr[-2000:]


# ------------------------------------------------------------- main loop ---
def run_replay(pid, path, quiet=False):
    boot.setup()
    prop = load_prop(pid)
    with open(path) as fh:
        rec = json.load(fh)
    case = rec['case'] if 'case' in rec else rec
    if hasattr(prop, 'warmup'):
        prop.warmup()
    for prev in rec.get('history_before', []):
        safe_run(prop, prev)      # the failure depends on what the process executed before
    out = safe_run(prop, case)
    if out['harness']:
        print('HARNESS-ERROR property=%s %s' % (pid, out['harness']))
        return EXIT_HARNESS
    want = rec.get('signature')
    sigs = [v['signature'] for v in out['violations']]
    if not quiet:
        print(json.dumps({'digest': out['digest'], 'violations': out['violations'][:5],
                          'probes': out['probes']}, indent=1, default=_js))
    if want is not None and want in sigs or (want is None and sigs):
        print('VIOLATION property=%s replay=%s' % (pid, path))
        return EXIT_VIOLATION
    if sigs:
        print('VIOLATION property=%s replay=%s (different signature: %s)' % (pid, path, sigs[0]))
        return EXIT_VIOLATION
    print('OK property=%s replay=%s reproduced no violation' % (pid, path))
    return EXIT_OK


def _make_pool(pid, workers):
    env = {k: os.environ[k] for k in ('VERIF_REPO', 'NUMBA_NUM_THREADS', 'PYTHONHASHSEED') if k in os.environ}
    ctx = mp.get_context('forkserver')
    ex = cf.ProcessPoolExecutor(max_workers=workers, mp_context=ctx, initializer=_winit, initargs=(pid, env))
    _POOLS.append(ex)
    return ex


_POOLS = []


def kill_pool(ex):
    """Terminate the worker processes outright (they may be wedged or damaged)."""
    try:
        procs = list((ex._processes or {}).values())
    except Exception:
        procs = []
    try:
        ex.shutdown(wait=False, cancel_futures=True)
    except Exception:
        pass
    for p in procs:
        try:
            p.kill()
        except Exception:
            pass


def kill_all_pools():
    for ex in _POOLS:
        kill_pool(ex)
    del _POOLS[:]


def _run_alone(pid, job, timeout=900):
    """Run one job in its own single-worker pool.  Returns (result, died)."""
    ex = _make_pool(pid, 1)
    try:
        fut = ex.submit(_wrun, job)
        return fut.result(timeout=timeout), False
    except cf.process.BrokenProcessPool:
        return None, True
    except cf.TimeoutError:
        return None, True
    finally:
        kill_pool(ex)


def run_check(pid, tier, seconds=None, runs=None, workers=None, verif_seed=None):
    """The main process never executes code under test: every case (corpus,
    sweep, seeded, shrink candidates) runs in a worker, so that memory damage
    caused by a broken kernel cannot corrupt the verdict."""
    t_start = time.time()
    boot.setup()
    prop = load_prop(pid)
    verif_seed = int(os.environ.get('VERIF_SEED', '0')) if verif_seed is None else verif_seed
    print('VERIF_SEED=%d property=%s tier=%s repo=%s' % (verif_seed, pid, tier, boot.REPO), flush=True)
    findings = load_findings(pid)
    workers = workers or int(os.environ.get('VERIF_WORKERS', '0')) or min(16, os.cpu_count() or 1)
    if tier == 'quick':
        nruns = runs if runs is not None else (int(os.environ.get('VERIF_RUNS', '0')) or getattr(prop, 'QUICK_RUNS', 200))
        deadline = t_start + (seconds or getattr(prop, 'QUICK_SECONDS', 150))
    else:
        nruns = runs if runs is not None else (int(os.environ.get('VERIF_RUNS', '0')) or getattr(prop, 'THOROUGH_RUNS', 10 ** 9))
        deadline = t_start + (seconds or int(os.environ.get('VERIF_THOROUGH_SECONDS', '0'))
                              or getattr(prop, 'THOROUGH_SECONDS', 900))

    agg = {'evaluations': 0, 'probes': {}, 'faults': {}, 'steps': 0, 'digests': set(),
           'nontrivial': set(), 'samples': [], 'harness': [], 'wall_cases': 0.0, 'crashes': 0}
    new_violations = {}     # signature -> (case, violation)
    known_hits = {}         # finding id -> count
    corpus_results = []
    seeds_used = []

    def absorb(job, case, out):
        i, kind, payload, _ = job
        agg['evaluations'] += 1
        bump(agg.setdefault('by_origin', {}), 'corpus' if kind.startswith('corpus') else kind)
        agg['steps'] += out.get('steps', 0)
        agg['wall_cases'] += out.get('wall', 0.0)
        agg['digests'].add(out['digest'])
        if out.get('nontrivial') is not None:
            agg['nontrivial'].add(json.dumps(out['nontrivial'], sort_keys=True, default=_js))
        for k, n in out['probes'].items():
            bump(agg['probes'], k, n)
        for k, n in out['faults'].items():
            bump(agg['faults'], k, n)
        if out['harness']:
            agg['harness'].append({'origin': kind, 'error': out['harness'], 'case': case})
        if kind == 'seed' and len(seeds_used) < 8:
            seeds_used.append(payload)
        if isinstance(kind, str) and kind.startswith('corpus/'):
            corpus_results.append({'file': kind[7:], 'signatures': [v['signature'] for v in out['violations']]})
        if case is not None and len(agg['samples']) < 4 and not out['violations'] and not out['harness']:
            agg['samples'].append({'origin': kind, 'case': _shorten(case), 'digest': out['digest']})
        for v in out['violations']:
            f = match_finding(findings, v)
            if f is not None:
                bump(known_hits, f['id'])
            elif case is not None and len(new_violations.get(v['signature'], [])) < 6:
                new_violations.setdefault(v['signature'], []).append((case, v, out.get('history', [])))

    def crashed(job):
        """A worker died while running this job (already confirmed alone)."""
        i, kind, payload, _ = job
        agg['crashes'] += 1
        if kind == 'seed':
            case = prop.gen(random.Random(payload), tier)   # generators never touch code under test
            case['seed'] = payload
        else:
            case = payload
        v = {'kind': 'crash', 'site': 'worker-process', 'signature': 'crash@worker-process',
             'detail': 'the worker process died (signal / timeout) while executing this case'}
        f = match_finding(findings, v)
        if f is not None:
            bump(known_hits, f['id'])
        elif v['signature'] not in new_violations:
            new_violations[v['signature']] = [(case, v, [])]

    def jobs():
        n = 0
        cdir = os.path.join(VERIF, 'corpus', pid)
        if os.path.isdir(cdir):
            for fn in sorted(os.listdir(cdir)):
                if fn.endswith('.json'):
                    with open(os.path.join(cdir, fn)) as fh:
                        rec = json.load(fh)
                    yield (n, 'corpus/' + fn, rec['case'] if 'case' in rec else rec, tier)
                    n += 1
        if hasattr(prop, 'sweep'):
            for case in prop.sweep(tier):
                yield (n, 'sweep', case, tier)
                n += 1
        for k in range(nruns):
            yield (n, 'seed', derive_seed(verif_seed, pid, tier, k), tier)
            n += 1

    jobit = jobs()
    seed_deadline = [None]
    ex = _make_pool(pid, workers)
    pending = {}
    exhausted = False
    try:
        while True:
            while not exhausted and len(pending) < workers * 3:
                try:
                    job = next(jobit)
                except StopIteration:
                    exhausted = True
                    break
                # corpus and sweep cases always run; seeded cases stop at the deadline -- which is never earlier than
                # 40% of the budget after the first seeded case is reached, so that a slow machine (or a long sweep)
                # cannot silently reduce the seeded part to nothing
                if job[1] == 'seed':
                    if seed_deadline[0] is None:
                        seed_deadline[0] = max(deadline, time.time() + 0.4 * (deadline - t_start))
                    if time.time() > seed_deadline[0]:
                        exhausted = True
                        break
                pending[ex.submit(_wrun, job)] = job
            if not pending:
                break
            done, _ = cf.wait(list(pending), timeout=900, return_when=cf.FIRST_COMPLETED)
            if not done:
                agg['harness'].append({'origin': 'pool', 'error': 'no progress for 900 s'})
                break
            broken = False
            for fut in done:
                job = pending.pop(fut)
                try:
                    i, kind, case, out = fut.result()
                    absorb(job, case, out)
                except cf.process.BrokenProcessPool:
                    broken = True
                    pending[fut] = job
                    break
            if broken:
                suspects = list(pending.values())
                pending.clear()
                kill_pool(ex)
                for job in suspects:
                    res, died = _run_alone(pid, job)
                    if died:
                        crashed(job)
                    else:
                        absorb(job, res[2], res[3])
                ex = _make_pool(pid, workers)
            if len(new_violations) >= 4 or len(agg['harness']) >= 10:
                break
    finally:
        for fut in pending:
            fut.cancel()

    # ---- minimise + confirm new violations (in fresh workers, never in this process)
    reported = []
    kill_pool(ex)
    for sig, cands in new_violations.items():
        done = False
        if sig.startswith('crash@'):
            case, v, _ = cands[0]
            path = write_replay(pid, case, v)
            ok, tail = confirm_replay(pid, path)
            if ok:
                reported.append((sig, path, 0))
            else:
                agg['harness'].append({'origin': 'replay', 'error': 'replay of %s did not reproduce: %s' % (path, tail)})
            continue
        for case, v, hist in cands:
            # a fresh single-use worker has no history: a case that fails there fails on its own
            ex1 = _make_pool(pid, 1)
            try:
                small, nshr, v2 = ex1.submit(_wshrink, (case, sig, getattr(prop, 'SHRINK_SECONDS', 60))).result(timeout=900)
            except Exception:
                small, nshr, v2 = None, 0, None
            kill_pool(ex1)
            if small is None:
                continue
            path = write_replay(pid, small, v2 or v)
            ok, tail = confirm_replay(pid, path)
            if ok:
                reported.append((sig, path, nshr))
                done = True
                break
        if done:
            continue
        # no case fails on its own: the failure depends on what the worker had executed before, i.e. the
        # code under test carries state from one independent case to the next.  Replay = shortest suffix
        # of that history followed by the case.
        for case, v, hist in cands:
            for k in (1, 2, 4, 8, 16):
                if k > len(hist) and k != 1:
                    break
                path = write_replay(pid, case, dict(v, detail={'note': 'fails only after the listed earlier cases ran in the '
                                                               'same process (state carried between independent cases)',
                                                               'original': v['detail']}), history=hist[-k:])
                ok, tail = confirm_replay(pid, path)
                if ok:
                    reported.append((sig, path, 0))
                    done = True
                    break
            if done:
                break
        if not done:
            agg['harness'].append({'origin': 'replay', 'error': 'no replay of %s reproduced in a fresh process' % sig})

    # ---- evidence
    wall = time.time() - t_start
    ev = {
        'property_id': pid, 'tier': tier, 'seed': verif_seed,
        'level': getattr(prop, 'LEVEL', 'exploration'),
        'coverage': {
            'evaluations': agg['evaluations'],
            'evaluations_by_origin': agg.get('by_origin', {}),
            'distinct_nontrivial': len(agg['nontrivial']),
            'rule': getattr(prop, 'RULE', ''),
            'samples': agg['samples'] or [{'note': 'no clean sample recorded'}],
            'distinct_event_digests': len(agg['digests']),
            'logical_steps': agg['steps'],
            'simulated_time': 'logical scheduler/IO steps only (the package has no timers): %d' % agg['steps'],
            'runs_per_hour': int(agg['evaluations'] / max(wall, 1e-9) * 3600),
            'seeds_first': seeds_used,
            'fault_kinds_fired': agg['faults'],
            'probes': agg['probes'],
            'components': getattr(prop, 'COMPONENTS', {}),
            'corpus': corpus_results,
            'known_findings_hit': known_hits,
            'worker_crashes': agg['crashes'],
            'workers': workers,
            'exhaustive': bool(getattr(prop, 'EXHAUSTIVE', False)),
        },
        'assumptions': getattr(prop, 'ASSUMPTIONS', []),
        'wall_s': round(wall, 2),
        'violations': len(reported),
    }
    evdir = os.environ.get('VERIF_EVIDENCE_DIR') or os.path.join(VERIF, 'evidence')
    os.makedirs(evdir, exist_ok=True)
    with open(os.path.join(evdir, pid + '.json'), 'w') as fh:
        json.dump(ev, fh, indent=1, sort_keys=True, default=_js)

    # ---- verdict
    for f in findings:
        if known_hits.get(f['id']):
            print('KNOWN-FINDING: property=%s %s' % (pid, f['what']))
        else:
            print('NOTE: listed finding %s was not reproduced in this run' % f['id'])
    for sig, path, nshr in reported:
        print('violation %s (minimised in %d steps)' % (sig, nshr))
        print('VIOLATION property=%s replay=%s' % (pid, path))
    print('evaluations=%d (%s) distinct_nontrivial=%d digests=%d steps=%d wall=%.1fs harness_errors=%d' % (
        agg['evaluations'], ' '.join('%s=%d' % kv for kv in sorted(agg.get('by_origin', {}).items())),
        len(agg['nontrivial']), len(agg['digests']), agg['steps'], wall, len(agg['harness'])))
    if reported:
        return EXIT_VIOLATION
    if agg['harness']:
        for h in agg['harness'][:3]:
            print('HARNESS-ERROR property=%s origin=%s\n%s' % (pid, h['origin'], h['error']))
            if h.get('case') is not None:
                hd = os.environ.get('VERIF_EVIDENCE_DIR') or os.path.join(VERIF, 'replays')     # never next to the evidence files
                os.makedirs(hd, exist_ok=True)
                hp = os.path.join(hd, '%s-harness.json' % pid)
                with open(hp, 'w') as fh:
                    json.dump({'property': pid, 'case': h['case']}, fh, default=_js)
        return EXIT_HARNESS
    return EXIT_OK


def _shorten(case, limit=1500):
    s = json.dumps(case, default=_js, sort_keys=True)
    if len(s) <= limit:
        return case
    return {'truncated_json': s[:limit] + '...'}
