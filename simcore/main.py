"""bin/check <ID> --tier quick|thorough | --replay <file>
   bin/check selftest-determinism | selftest-sensitivity"""
import argparse
import os
import sys


def main(argv=None):
    ap = argparse.ArgumentParser()
    ap.add_argument('target')
    ap.add_argument('--tier', default=os.environ.get('VERIF_TIER', 'quick'), choices=['quick', 'thorough'])
    ap.add_argument('--replay')
    ap.add_argument('--seconds', type=int)
    ap.add_argument('--runs', type=int)
    ap.add_argument('--workers', type=int)
    ap.add_argument('--quiet', action='store_true')
    args = ap.parse_args(argv)
    from simcore import core
    if args.target == 'selftest-determinism':
        from simcore import selftest
        return selftest.determinism(args)
    if args.target == 'selftest-sensitivity':
        from simcore import selftest
        return selftest.sensitivity(args)
    pid = args.target.upper()
    if args.replay:
        return core.run_replay(pid, args.replay, quiet=args.quiet)
    return core.run_check(pid, args.tier, seconds=args.seconds, runs=args.runs, workers=args.workers)


if __name__ == '__main__':
    rc = main()
    try:
        from simcore import core as _core
        _core.kill_all_pools()
    except Exception:
        pass
    sys.stdout.flush()
    sys.stderr.flush()
    # skip interpreter teardown: a detected out-of-bounds write by the code under
    # test may have damaged the heap, and the verdict is already printed
    os._exit(rc if isinstance(rc, int) else 0)
