"""Import-time instrumentation of the repository's working tree.

``install(repo)`` adds a meta-path finder that serves two package names from
the *same source files* under ``<repo>/abacusnbody``:

``abacusnbody``  (variant "real")
    R1  np.empty / np.empty_like in non-compiled functions -> poisoned allocator
    R2  wall-clock reads -> simulated clock
    numba kernels are compiled exactly as in production.

``abx_sim``  (variant "sim")
    numba -> simnumba (identity decorators, simulated thread API)
    numpy -> simnp (array creation returns tracked arrays; np.empty is poisoned)
    R2 as above
    R3  every ``for v in <numba>.prange(n): BODY`` becomes a task generator run
        by e1_threads.sched.SIM.parallel_for; inside task bodies, and inside
        module-level helpers that store into arrays ("G functions", e.g.
        tsc._tsc_scatter), a ``yield`` precedes every statement that touches a
        subscript and ``a[i] op= v`` is split into load / yield / store.

Nothing in /repo is modified; the source is read when the module is imported,
so an edit to the working tree is what the very next check executes.
"""
import ast
import importlib.abc
import importlib.machinery
import os
import sys

from . import rt

REAL = 'abacusnbody'
SIMPKG = 'abx_sim'

_NUMBA_NAMES = {'numba', 'nb'}
_JIT_NAMES = {'njit', 'jit', 'vectorize', 'guvectorize'}


class TransformError(Exception):
    pass


def _is_jit_decorator(d):
    if isinstance(d, ast.Call):
        d = d.func
    if isinstance(d, ast.Name):
        return d.id in _JIT_NAMES
    if isinstance(d, ast.Attribute):
        return d.attr in _JIT_NAMES
    return False


def _is_jitted(fn):
    return any(_is_jit_decorator(d) for d in fn.decorator_list)


def _is_prange_call(node):
    if not isinstance(node, ast.Call):
        return False
    f = node.func
    if isinstance(f, ast.Name):
        return f.id == 'prange'
    if isinstance(f, ast.Attribute):
        return f.attr == 'prange'
    return False


def _rt(attr):
    return ast.Attribute(value=ast.Name(id='__sim_rt__', ctx=ast.Load()), attr=attr, ctx=ast.Load())


# ------------------------------------------------------------ R1 / R2 -----
class _ClockAndAlloc(ast.NodeTransformer):
    """R2 everywhere; R1 only where ``alloc`` is true (non-jitted code)."""

    def __init__(self, do_alloc):
        self.alloc_stack = [do_alloc]
        self.do_alloc = do_alloc

    def visit_FunctionDef(self, node):
        jitted = _is_jitted(node)
        self.alloc_stack.append(self.do_alloc and not jitted and self.alloc_stack[-1])
        self.generic_visit(node)
        self.alloc_stack.pop()
        return node

    def visit_Call(self, node):
        self.generic_visit(node)
        f = node.func
        if isinstance(f, ast.Attribute) and isinstance(f.value, ast.Name):
            mod, attr = f.value.id, f.attr
            if (mod, attr) in (('time', 'perf_counter'), ('time', 'time'),
                               ('timeit', 'default_timer'), ('time', 'monotonic')):
                return ast.copy_location(ast.Call(func=_rt('clock'), args=[], keywords=[]), node)
            if self.alloc_stack[-1] and mod in ('np', 'numpy') and attr in ('empty', 'empty_like'):
                node.func = _rt('alloc_' + attr)
                return node
        elif isinstance(f, ast.Name) and f.id in ('timer', 'default_timer') and not node.args:
            return ast.copy_location(ast.Call(func=_rt('clock'), args=[], keywords=[]), node)
        return node


# ------------------------------------------------------------------ R3 ----
def _has_subscript(node):
    for n in ast.walk(node):
        if isinstance(n, ast.Subscript):
            return True
    return False


def _own_exprs(stmt):
    """Expressions evaluated by the statement itself (not by nested bodies)."""
    if isinstance(stmt, (ast.If, ast.While)):
        return [stmt.test]
    if isinstance(stmt, ast.For):
        return [stmt.iter]
    if isinstance(stmt, (ast.Assign, ast.AugAssign, ast.AnnAssign, ast.Expr, ast.Return, ast.Assert)):
        return [stmt]
    if isinstance(stmt, ast.With):
        return [i.context_expr for i in stmt.items]
    return []


def _stores_subscript(fn):
    for n in ast.walk(fn):
        if isinstance(n, ast.Subscript) and isinstance(n.ctx, ast.Store):
            return True
        if isinstance(n, ast.AugAssign) and isinstance(n.target, ast.Subscript):
            return True
    return False


def _contains_prange(fn):
    for n in ast.walk(fn):
        if isinstance(n, ast.For) and _is_prange_call(n.iter):
            return True
    return False


class _YieldInserter(ast.NodeTransformer):
    """Rewrites a statement list executed by a simulated thread."""

    def __init__(self, gfuncs):
        self.gfuncs = gfuncs
        self.tmp = 0

    # calls to G functions become ``yield from f__gen(...)``
    def visit_Call(self, node):
        self.generic_visit(node)
        if isinstance(node.func, ast.Name) and node.func.id in self.gfuncs:
            new = ast.Call(func=ast.Name(id=node.func.id + '__gen', ctx=ast.Load()),
                           args=node.args, keywords=node.keywords)
            return ast.copy_location(ast.YieldFrom(value=ast.copy_location(new, node)), node)
        return node

    def visit_FunctionDef(self, node):   # do not descend into nested defs / lambdas
        return node

    visit_Lambda = visit_FunctionDef

    def _yield_stmt(self, ref):
        return ast.copy_location(ast.Expr(value=ast.Yield(value=None)), ref)

    def rewrite_body(self, body):
        out = []
        for stmt in body:
            out.extend(self.rewrite_stmt(stmt))
        return out

    def rewrite_stmt(self, stmt):
        pre = []
        touches = any(_has_subscript(e) for e in _own_exprs(stmt))
        if touches:
            pre.append(self._yield_stmt(stmt))
        if isinstance(stmt, ast.AugAssign) and isinstance(stmt.target, ast.Subscript):
            # a[i] op= v   ->   t = a[i]; yield; a[i] = t op v
            self.tmp += 1
            tname = '__aug%d' % self.tmp
            load_t = ast.Subscript(value=stmt.target.value, slice=stmt.target.slice, ctx=ast.Load())
            s1 = ast.Assign(targets=[ast.Name(id=tname, ctx=ast.Store())], value=load_t)
            val = self.visit(stmt.value)
            s3 = ast.Assign(
                targets=[ast.Subscript(value=stmt.target.value, slice=stmt.target.slice, ctx=ast.Store())],
                value=ast.BinOp(left=ast.Name(id=tname, ctx=ast.Load()), op=stmt.op, right=val))
            res = pre + [ast.copy_location(s1, stmt), self._yield_stmt(stmt), ast.copy_location(s3, stmt)]
            for r in res:
                ast.fix_missing_locations(r)
            return res
        # compound statements: recurse into bodies
        for field in ('body', 'orelse', 'finalbody'):
            b = getattr(stmt, field, None)
            if isinstance(b, list) and b and isinstance(b[0], ast.stmt):
                setattr(stmt, field, self.rewrite_body(b))
        # rewrite G calls in the statement's own expressions
        if isinstance(stmt, (ast.If, ast.While)):
            stmt.test = self.visit(stmt.test)
        elif isinstance(stmt, ast.For):
            stmt.iter = self.visit(stmt.iter)
        elif isinstance(stmt, (ast.Assign, ast.AugAssign, ast.AnnAssign, ast.Expr, ast.Return)):
            if getattr(stmt, 'value', None) is not None:
                stmt.value = self.visit(stmt.value)
        return pre + [stmt]


def _assigned_names(stmts):
    names = set()
    for s in stmts:
        for n in ast.walk(s):
            if isinstance(n, ast.Name) and isinstance(n.ctx, ast.Store):
                names.add(n.id)
    return names


def _definitely_bound_before(fn, loop):
    """Names that are parameters of ``fn`` or assigned by a top-level statement
    of ``fn`` that precedes ``loop`` (used for first-private capture)."""
    bound = {a.arg for a in fn.args.args + fn.args.kwonlyargs + fn.args.posonlyargs}
    if fn.args.vararg:
        bound.add(fn.args.vararg.arg)
    if fn.args.kwarg:
        bound.add(fn.args.kwarg.arg)
    for s in fn.body:
        if s is loop or any(n is loop for n in ast.walk(s)):
            break
        if isinstance(s, (ast.Assign, ast.AugAssign, ast.AnnAssign)):
            bound |= _assigned_names([s])
    return bound


class _PrangeRewriter:
    def __init__(self, gfuncs, modname):
        self.gfuncs = gfuncs
        self.modname = modname
        self.k = 0

    def rewrite_function(self, fn):
        self.fn = fn
        # names bound only on some paths (e.g. per-tracer parameters unpacked under
        # ``if want_LRG:``) are *undefined values* in compiled code, not errors; model
        # them as NaN poison so that a use which reaches an output is visible
        params = {a.arg for a in fn.args.posonlyargs + fn.args.args + fn.args.kwonlyargs}
        cond = set()

        def collect(stmts, conditional):
            for st in stmts:
                if isinstance(st, ast.For) and _is_prange_call(st.iter):
                    continue
                if isinstance(st, (ast.FunctionDef, ast.ClassDef, ast.Lambda)):
                    continue
                if conditional:
                    for n in ast.walk(st):
                        if isinstance(n, (ast.For,)) and _is_prange_call(n.iter):
                            break
                    if isinstance(st, (ast.Assign, ast.AugAssign, ast.AnnAssign)):
                        for tgt in (st.targets if isinstance(st, ast.Assign) else [st.target]):
                            for n in ast.walk(tgt):
                                if isinstance(n, ast.Name) and isinstance(n.ctx, ast.Store):
                                    cond.add(n.id)
                for field in ('body', 'orelse', 'finalbody'):
                    b = getattr(st, field, None)
                    if isinstance(b, list) and b and isinstance(b[0], ast.stmt):
                        collect(b, True)
        collect(fn.body, False)
        undef = [ast.Assign(targets=[ast.Name(id=n, ctx=ast.Store())], value=_rt('UNDEF')) for n in sorted(cond - params)]
        fn.body = self._walk(fn.body)
        self._undef = undef
        # track array arguments on entry
        pre = []
        for a in fn.args.posonlyargs + fn.args.args + fn.args.kwonlyargs:
            pre.append(ast.Assign(
                targets=[ast.Name(id=a.arg, ctx=ast.Store())],
                value=ast.Call(func=_rt('track'),
                               args=[ast.Name(id=a.arg, ctx=ast.Load()),
                                     ast.Constant(value='%s(%s)' % (fn.name, a.arg))],
                               keywords=[])))
        enter = ast.Expr(value=ast.Call(func=_rt('kernel_enter'), args=[], keywords=[]))
        leave = ast.Expr(value=ast.Call(func=_rt('kernel_leave'), args=[], keywords=[]))
        doc = []
        body = fn.body
        if body and isinstance(body[0], ast.Expr) and isinstance(getattr(body[0], 'value', None), ast.Constant) \
                and isinstance(body[0].value.value, str):
            doc, body = [body[0]], body[1:]
        fn.body = doc + pre + self._undef + [enter, ast.Try(body=body, handlers=[], orelse=[], finalbody=[leave])]
        return fn

    def _walk(self, body):
        out = []
        for stmt in body:
            if isinstance(stmt, ast.For) and _is_prange_call(stmt.iter):
                out.extend(self._rewrite_loop(stmt))
                continue
            for field in ('body', 'orelse', 'finalbody'):
                b = getattr(stmt, field, None)
                if isinstance(b, list) and b and isinstance(b[0], ast.stmt) and not isinstance(stmt, ast.FunctionDef):
                    setattr(stmt, field, self._walk(b))
            out.append(stmt)
        return out

    def _rewrite_loop(self, loop):
        if loop.orelse:
            raise TransformError('prange loop with else clause')
        if not isinstance(loop.target, ast.Name):
            raise TransformError('prange loop target is not a simple name')
        args = loop.iter.args
        if len(args) != 1 or loop.iter.keywords:
            raise TransformError('prange with start/step is not modelled')
        for n in ast.walk(loop):
            if n is not loop and isinstance(n, ast.For) and _is_prange_call(n.iter):
                raise TransformError('nested prange')
            if isinstance(n, (ast.Break, ast.Continue, ast.Return)):
                pass
        self.k += 1
        tname = '__task%d' % self.k
        assigned = _assigned_names(loop.body) - {loop.target.id}
        outer = _definitely_bound_before(self.fn, loop)
        firstprivate = sorted(assigned & outer)
        # scalar reductions (x += ... on an outer name) are not modelled
        for n in ast.walk(loop):
            if isinstance(n, ast.AugAssign) and isinstance(n.target, ast.Name) and n.target.id in firstprivate:
                # only a problem if the name is read after the loop; be conservative
                raise TransformError('scalar reduction on %r in prange body' % n.target.id)
        # ``return`` directly inside a prange body is not valid numba either
        yi = _YieldInserter(self.gfuncs)
        body = yi.rewrite_body(loop.body)
        body.append(ast.If(test=ast.Constant(value=False),
                           body=[ast.Expr(value=ast.Yield(value=None))], orelse=[]))
        fargs = ast.arguments(
            posonlyargs=[], args=[ast.arg(arg=loop.target.id)] + [ast.arg(arg=n) for n in firstprivate],
            vararg=None, kwonlyargs=[], kw_defaults=[], kwarg=None,
            defaults=[ast.Name(id=n, ctx=ast.Load()) for n in firstprivate])
        tdef = ast.FunctionDef(name=tname, args=fargs, body=body, decorator_list=[], returns=None,
                               type_comment=None, type_params=[])
        call = ast.Expr(value=ast.Call(
            func=_rt('parallel_for'),
            args=[args[0], ast.Name(id=tname, ctx=ast.Load()),
                  ast.Constant(value='%s.%s/%d' % (self.modname.rsplit('.', 1)[-1], self.fn.name, self.k))],
            keywords=[]))
        res = [ast.copy_location(tdef, loop), ast.copy_location(call, loop)]
        for r in res:
            ast.fix_missing_locations(r)
        return res


def _make_gen_version(fn, gfuncs):
    import copy
    g = copy.deepcopy(fn)
    g.name = fn.name + '__gen'
    g.decorator_list = []
    yi = _YieldInserter(gfuncs)
    g.body = yi.rewrite_body(g.body)
    g.body.append(ast.If(test=ast.Constant(value=False),
                         body=[ast.Expr(value=ast.Yield(value=None))], orelse=[]))
    ast.fix_missing_locations(g)
    return g


class _ImportRewriter(ast.NodeTransformer):
    """numba -> simnumba, numpy -> simnp, absolute abacusnbody -> abx_sim."""

    def visit_Import(self, node):
        for a in node.names:
            if a.name == 'numba':
                a.asname = a.asname or 'numba'
                a.name = 'simnumba'
            elif a.name == 'numpy':
                a.asname = a.asname or 'numpy'
                a.name = 'simnp'
            elif a.name == REAL or a.name.startswith(REAL + '.'):
                a.name = SIMPKG + a.name[len(REAL):]
        return node

    def visit_ImportFrom(self, node):
        if node.level == 0 and node.module:
            if node.module == 'numba':
                node.module = 'simnumba'
            elif node.module == 'numba.typed':
                node.module = 'simnumba.typed'
            elif node.module == 'numpy':
                node.module = 'simnp'
            elif node.module == REAL or node.module.startswith(REAL + '.'):
                node.module = SIMPKG + node.module[len(REAL):]
        return node


class _PoolRewriter(ast.NodeTransformer):
    """concurrent.futures / threading / multiprocessing.pool.ThreadPool -> instr.simpool (seeded task order)."""

    def visit_ImportFrom(self, node):
        if node.level == 0 and node.module in ('concurrent.futures', 'concurrent.futures.thread'):
            keep, sim = [], []
            for a in node.names:
                (sim if a.name in ('ThreadPoolExecutor', 'as_completed', 'wait') else keep).append(a)
            out = []
            if keep:
                out.append(ast.ImportFrom(module=node.module, names=keep, level=0))
            if sim:
                out.append(ast.ImportFrom(module='instr.simpool', names=sim, level=0))
            return [ast.copy_location(n, node) for n in out]
        if node.level == 0 and node.module == 'threading':
            keep, sim = [], []
            for a in node.names:
                (sim if a.name == 'Thread' else keep).append(a)
            out = []
            if keep:
                out.append(ast.ImportFrom(module='threading', names=keep, level=0))
            if sim:
                out.append(ast.ImportFrom(module='instr.simpool', names=sim, level=0))
            return [ast.copy_location(n, node) for n in out]
        return node

    def visit_Attribute(self, node):
        self.generic_visit(node)
        # concurrent.futures.ThreadPoolExecutor / futures.ThreadPoolExecutor / threading.Thread
        if node.attr in ('ThreadPoolExecutor', 'as_completed', 'wait') and isinstance(node.value, (ast.Attribute, ast.Name)):
            base = node.value
            name = base.attr if isinstance(base, ast.Attribute) else base.id
            if name in ('futures',):
                return ast.copy_location(ast.Attribute(value=_rt('simpool'), attr=node.attr, ctx=node.ctx), node)
        if node.attr == 'Thread' and isinstance(node.value, ast.Name) and node.value.id == 'threading':
            return ast.copy_location(ast.Attribute(value=_rt('simpool'), attr='Thread', ctx=node.ctx), node)
        return node


def transform(source, filename, modname, variant):
    tree = ast.parse(source, filename)
    tree = _PoolRewriter().visit(tree)
    ast.fix_missing_locations(tree)
    info = {'pranges': 0, 'gfuncs': [], 'variant': variant}
    if variant == 'real':
        tree = _ClockAndAlloc(do_alloc=True).visit(tree)
        ast.fix_missing_locations(tree)
        return tree, info
    # ---- sim
    tree = _ImportRewriter().visit(tree)
    tree = _ClockAndAlloc(do_alloc=False).visit(tree)
    # module-level (and class-level) functions
    funcs = {}
    containers = [tree] + [n for n in tree.body if isinstance(n, ast.ClassDef)]
    for c in containers:
        for n in c.body:
            if isinstance(n, ast.FunctionDef):
                funcs[n.name] = (c, n)
    prange_funcs = {name for name, (_, f) in funcs.items() if _contains_prange(f) and _is_jitted(f)}
    # G functions: jitted module-level helpers that store into arrays (transitively)
    g = {name for name, (c, f) in funcs.items()
         if c is tree and name not in prange_funcs and _is_jitted(f) and _stores_subscript(f)}
    changed = True
    while changed:
        changed = False
        for name, (c, f) in funcs.items():
            if c is not tree or name in g or name in prange_funcs or not _is_jitted(f):
                continue
            for n in ast.walk(f):
                if isinstance(n, ast.Call) and isinstance(n.func, ast.Name) and n.func.id in g:
                    g.add(name)
                    changed = True
                    break
    info['gfuncs'] = sorted(g)
    # generator versions (appended after the originals)
    gens = [(funcs[name][1], _make_gen_version(funcs[name][1], g)) for name in sorted(g)]
    for orig, gen in gens:
        idx = tree.body.index(orig)
        tree.body.insert(idx + 1, gen)
    # prange kernels
    info['skipped'] = {}
    for name in sorted(prange_funcs):
        c, f = funcs[name]
        rw = _PrangeRewriter(g, modname)
        import copy
        backup = copy.deepcopy(f)
        try:
            rw.rewrite_function(f)
            info['pranges'] += rw.k
        except TransformError as e:
            # construct outside the model (e.g. a scalar reduction): the function stays
            # as written and its prange runs serially (simnumba.prange is range);
            # recorded so that a check that depends on it can say so
            idx = c.body.index(f)
            c.body[idx] = backup
            info['skipped'][name] = str(e)
    # methods/nested functions with prange that are not module/class level
    ast.fix_missing_locations(tree)
    return tree, info


# ---------------------------------------------------------------- finder ---
class _Finder(importlib.abc.MetaPathFinder, importlib.abc.Loader):
    def __init__(self, repo):
        self.root = os.path.join(repo, 'abacusnbody')
        self.info = {}

    def _variant(self, fullname):
        top = fullname.split('.', 1)[0]
        if top == REAL:
            return 'real'
        if top == SIMPKG:
            return 'sim'
        return None

    def _path(self, fullname):
        parts = fullname.split('.')[1:]
        d = os.path.join(self.root, *parts)
        if os.path.isdir(d) and os.path.exists(os.path.join(d, '__init__.py')):
            return os.path.join(d, '__init__.py'), True
        f = d + '.py'
        if os.path.exists(f):
            return f, False
        if parts and parts[-1] == 'version':
            return None, False     # git-ignored generated file; synthesised
        return False, False

    def find_spec(self, fullname, path=None, target=None):
        if self._variant(fullname) is None:
            return None
        p, is_pkg = self._path(fullname)
        if p is False:
            return None
        spec = importlib.machinery.ModuleSpec(fullname, self, origin=p or 'synthetic', is_package=is_pkg)
        if is_pkg:
            spec.submodule_search_locations = [os.path.dirname(p)]
        return spec

    def create_module(self, spec):
        return None

    def exec_module(self, module):
        fullname = module.__name__
        variant = self._variant(fullname)
        p, is_pkg = self._path(fullname)
        module.__dict__['__sim_rt__'] = _RT
        if variant == 'sim':
            import e1_threads.sched  # noqa: F401  (registers simnumba / simnp and rt.SIM)
        if p is None:
            module.__version__ = '0+verif'
            return
        with open(p, 'r') as fh:
            src = fh.read()
        if not src.strip() and fullname.endswith('.version'):
            module.__version__ = '0+verif'
            return
        module.__file__ = p
        tree, info = transform(src, p, fullname, variant)
        self.info[fullname] = info
        code = compile(tree, p, 'exec')
        exec(code, module.__dict__)


class _Runtime:
    """Facade bound to the name ``__sim_rt__`` in instrumented modules."""
    UNDEF = float('nan')
    from . import simpool as simpool
    alloc_empty = staticmethod(rt.alloc_empty)
    alloc_empty_like = staticmethod(rt.alloc_empty_like)
    clock = staticmethod(rt.clock)

    @staticmethod
    def parallel_for(n, body, name):
        return rt.SIM.parallel_for(n, body, name)

    @staticmethod
    def track(a, label=None):
        from e1_threads.sched import track
        return track(a, label)

    @staticmethod
    def kernel_enter():
        rt.SIM.in_kernel += 1

    @staticmethod
    def kernel_leave():
        rt.SIM.in_kernel -= 1


_RT = _Runtime()
_finder = None


def install(repo):
    global _finder
    if _finder is not None:
        return _finder
    _finder = _Finder(repo)
    sys.meta_path.insert(0, _finder)
    return _finder


def dump(fullname, repo=None):
    """Return the transformed source of a module (debugging aid)."""
    f = _finder or _Finder(repo or os.environ.get('VERIF_REPO', '/repo'))
    p, _ = f._path(fullname)
    with open(p) as fh:
        src = fh.read()
    tree, info = transform(src, p, fullname, f._variant(fullname))
    return ast.unparse(tree), info
