"""Run-time support injected (as ``__sim_rt``) into instrumented modules.

Two things live here:

* the simulated allocator (seam S2): ``alloc_empty`` / ``alloc_empty_like``
  return *owning* arrays whose bytes are a seeded poison pattern, so that a
  row that is never written, or a temporary read before it is filled, is
  visible and repeatable instead of "plausible stale numbers";
* the simulated clock (seam S5).

The thread simulator (seam S1) is in e1_threads.sched and registers itself
here as ``SIM``.
"""
import numpy as np

# ---------------------------------------------------------------- poison ----
POISONS = {
    'A': 0xFF,  # float: NaN ; signed int: -1 ; unsigned: max
    'B': 0x7F,  # float32: 3.4e38, float64: 1.4e306 ; ints: large positive
}


class Alloc:
    poison = 'A'
    count = 0          # number of poisoned allocations (probe)
    bytes = 0

    @classmethod
    def set(cls, which):
        cls.poison = which

    @classmethod
    def reset(cls):
        cls.count = 0
        cls.bytes = 0


def _fill(a):
    if a.size:
        flat = a.reshape(-1) if a.flags.c_contiguous else None
        if flat is not None:
            flat.view(np.uint8)[...] = POISONS[Alloc.poison]
        else:  # pragma: no cover  (np.empty is always contiguous)
            a[...] = np.frombuffer(bytes([POISONS[Alloc.poison]]) * a.itemsize, a.dtype)[0]
    Alloc.count += 1
    Alloc.bytes += a.nbytes
    return a


def alloc_empty(shape, dtype=float, order='C', **kw):
    a = np.empty(shape, dtype=dtype, order=order, **kw)
    return _fill(a)


def alloc_empty_like(proto, dtype=None, order='K', subok=True, shape=None, **kw):
    a = np.empty_like(np.asarray(proto), dtype=dtype, shape=shape)
    return _fill(a)


# ----------------------------------------------------------------- clock ----
class Clock:
    t = 0.0

    @classmethod
    def reset(cls):
        cls.t = 0.0


def clock():
    Clock.t += 1e-3
    return Clock.t


# set by e1_threads.sched on import of the sim variant
SIM = None
