"""Deterministic stand-ins for Python-level thread pools (seam S1 for code that is
not a numba kernel).

The repository has no Python threads today; should a change introduce a
``concurrent.futures.ThreadPoolExecutor`` / ``threading.Thread`` in an
instrumented module, its tasks are *not* run on real threads (whose interleaving
the simulator does not decide) but one at a time, to completion, in an order
drawn from the case's PRNG.  This explores task *orderings* (any order of
independent tasks is a legal schedule of a real pool), deterministically and
replayably; interleavings inside a task are not explored.
"""
import random


class Sim:
    rng = random.Random(0)
    submitted = 0
    reordered = 0

    @classmethod
    def seed(cls, s):
        cls.rng = random.Random(s)
        cls.submitted = 0
        cls.reordered = 0


class Future:
    def __init__(self, pool, fn, args, kwargs):
        self.pool, self.fn, self.args, self.kwargs = pool, fn, args, kwargs
        self._done = False
        self._result = None
        self._exc = None
        self._callbacks = []

    def _run(self):
        if self._done:
            return
        try:
            self._result = self.fn(*self.args, **self.kwargs)
        except BaseException as e:      # delivered by result(), as a real future does
            self._exc = e
        self._done = True
        for cb in self._callbacks:
            cb(self)

    def done(self):
        return self._done

    def cancel(self):
        return False

    def cancelled(self):
        return False

    def running(self):
        return False

    def add_done_callback(self, cb):
        if self._done:
            cb(self)
        else:
            self._callbacks.append(cb)

    def result(self, timeout=None):
        if not self._done:
            self.pool._run_until(self)
        if self._exc is not None:
            raise self._exc
        return self._result

    def exception(self, timeout=None):
        if not self._done:
            self.pool._run_until(self)
        return self._exc


class ThreadPoolExecutor:
    def __init__(self, max_workers=None, thread_name_prefix='', initializer=None, initargs=()):
        self._pending = []
        self._max_workers = max_workers or 4
        if initializer is not None:
            initializer(*initargs)

    def submit(self, fn, *args, **kwargs):
        f = Future(self, fn, args, kwargs)
        Sim.submitted += 1
        self._pending.append(f)
        return f

    def _pick(self):
        k = Sim.rng.randrange(len(self._pending))
        if k:
            Sim.reordered += 1
        return self._pending.pop(k)

    def _run_until(self, fut):
        while not fut._done and self._pending:
            self._pick()._run()

    def _drain(self):
        while self._pending:
            self._pick()._run()

    def map(self, fn, *iterables, timeout=None, chunksize=1):
        futs = [self.submit(fn, *args) for args in zip(*iterables)]
        self._drain()

        def gen():
            for f in futs:
                yield f.result()
        return gen()

    def shutdown(self, wait=True, cancel_futures=False):
        self._drain()

    def __enter__(self):
        return self

    def __exit__(self, *a):
        self.shutdown()
        return False


class Thread:
    """threading.Thread stand-in: the target runs at start() or at join(), decided by the PRNG."""

    def __init__(self, group=None, target=None, name=None, args=(), kwargs=None, daemon=None):
        self._target, self._args, self._kwargs = target, args, kwargs or {}
        self._ran = False
        self.name = name or 'SimThread'
        self.daemon = daemon

    def run(self):
        if self._target is not None:
            self._target(*self._args, **self._kwargs)

    def _go(self):
        if not self._ran:
            self._ran = True
            self.run()

    def start(self):
        Sim.submitted += 1
        if Sim.rng.random() < 0.5:
            self._go()
        else:
            Sim.reordered += 1

    def join(self, timeout=None):
        self._go()

    def is_alive(self):
        return False


def as_completed(fs, timeout=None):
    fs = list(fs)
    order = list(range(len(fs)))
    Sim.rng.shuffle(order)
    for i in order:
        fs[i].result() if not fs[i]._done and fs[i]._exc is None else None
        yield fs[i]


def wait(fs, timeout=None, return_when='ALL_COMPLETED'):
    fs = list(fs)
    for f in fs:
        if not f._done:
            f.pool._run_until(f)
    return set(fs), set()
